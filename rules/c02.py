"""C02 — inverse, determinant, transpose, swaps obey the laws of linear algebra."""
import itertools
import algebra as A
from algebra import El, ZERO, ONE
from core import (check_option_inverse, Harness, VEC, PNT, MAT, sv, sm, ss, Run, Conv, run_specs, report_dropped, ret_leaves, cmp_struct, flat)
import facts

PROP = 'C02'


def swapped(m, n, a, b, what):
    r = [list(c) for c in m]
    if what == 'rows':
        for c in range(n):
            r[c][a], r[c][b] = r[c][b], r[c][a]
    elif what == 'cols':
        r[a], r[b] = r[b], r[a]
    else:
        (ac, ar), (bc, br) = a, b
        r[ac][ar], r[bc][br] = r[bc][br], r[ac][ar]
    return r


def build(tier):
    h = Harness(PROP)
    g = '<S: BaseFloat>'
    for n, M in MAT.items():
        V, comps = VEC[n]
        Tm, Tv = '%s<S>' % M, '%s<S>' % V
        m = 'm%d' % n
        a = sm('a0', n)
        h.root('determinant__' + m, '%s(a: &%s) -> S' % (g, Tm), 'a.determinant()', ('value', A.det(a)))
        h.root('invert__' + m, '%s(a: &%s) -> Option<%s>' % (g, Tm, Tm), 'a.invert()', ('invert', n))
        h.root('transpose_self__' + m, '%s(a: &mut %s)' % (g, Tm), 'a.transpose_self()', ('post', {'a0': A.transpose(a)}), rule='K1 copy provenance')
        h.root('transpose__' + m, '%s(a: &%s) -> %s' % (g, Tm, Tm), 'a.transpose()', ('value', A.transpose(a)), rule='K1 copy provenance')
        for x in range(n + 1):
            for y in range(n + 1):
                for what, fn in (('rows', 'swap_rows'), ('cols', 'swap_columns')):
                    nm = '%s__%s__%d_%d' % (fn, m, x, y)
                    if x == n or y == n:
                        h.root(nm, '%s(a: &mut %s)' % (g, Tm), 'a.%s(%d, %d)' % (fn, x, y), ('panic',))
                    else:
                        h.root(nm, '%s(a: &mut %s)' % (g, Tm), 'a.%s(%d, %d)' % (fn, x, y), ('post', {'a0': swapped(a, n, x, y, what)}), rule='K1 copy provenance')
        cells = [(c, r) for c in range(n) for r in range(n)]
        for p in cells:
            for q in cells:
                h.root('swap_elements__%s__%d%d_%d%d' % (m, p[0], p[1], q[0], q[1]), '%s(a: &mut %s)' % (g, Tm),
                       'Matrix::swap_elements(a, (%d, %d), (%d, %d))' % (p[0], p[1], q[0], q[1]), ('post', {'a0': swapped(a, n, p, q, 'elems')}), rule='K1 copy provenance')
        for bad in (((n, 0), (0, 0)), ((0, n), (0, 0)), ((0, 0), (n, 0)), ((0, 0), (0, n))):
            (pc, pr), (qc, qr) = bad
            h.root('swap_elements__%s__%d%d_%d%d' % (m, pc, pr, qc, qr), '%s(a: &mut %s)' % (g, Tm), 'Matrix::swap_elements(a, (%d, %d), (%d, %d))' % (pc, pr, qc, qr), ('panic',))
        v = sv('a1', n)
        for c in range(n):
            newm = [list(col) for col in a]
            newm[c] = v
            h.root('replace_col__%s__%d' % (m, c), '%s(a: &mut %s, b: %s) -> %s' % (g, Tm, Tv, Tv), 'a.replace_col(%d, b)' % c, ('post', {'a0': newm}, a[c]), rule='K1 copy provenance')
        h.root('replace_col__%s__%d' % (m, n), '%s(a: &mut %s, b: %s) -> %s' % (g, Tm, Tv, Tv), 'a.replace_col(%d, b)' % n, ('panic',))
    h.root('inverse_transform__m3_2d', g + '(a: &Matrix3<S>) -> Option<Matrix3<S>>', 'Transform::<Point2<S>>::inverse_transform(a)', ('invert', 3))
    h.root('inverse_transform__m3_3d', g + '(a: &Matrix3<S>) -> Option<Matrix3<S>>', 'Transform::<Point3<S>>::inverse_transform(a)', ('invert', 3))
    h.root('inverse_transform__m4', g + '(a: &Matrix4<S>) -> Option<Matrix4<S>>', 'Transform::<Point3<S>>::inverse_transform(a)', ('invert', 4))
    # Vector4::truncate_n used by the 4x4 cofactors
    v4 = sv('a0', 4)
    for k in range(4):
        h.root('truncate_n__%d' % k, '<S: BaseNum>(a: &Vector4<S>) -> Vector3<S>', 'a.truncate_n(%d)' % k, ('value', [v4[i] for i in range(4) if i != k]), rule='K1 copy provenance')
    h.root('truncate_n__4', '<S: BaseNum>(a: &Vector4<S>) -> Vector3<S>', 'a.truncate_n(4)', ('panic',))
    h.root('truncate_n__neg', '<S: BaseNum>(a: &Vector4<S>) -> Vector3<S>', 'a.truncate_n(-1)', ('panic',))
    return h


def check_invert(run, S, name, spec, kw):
    check_option_inverse(run, S, name, spec[1])


def spec_selfcheck():
    for n in (2, 3):
        a, b = sm('A', n), sm('B', n)
        adj = A.adjugate(a)
        P = A.matmul(adj, a)
        Q = A.matmul(a, adj)
        D = A.det(a)
        for c in range(n):
            for r in range(n):
                want = D if c == r else ZERO
                assert A.eq(P[c][r], want) and A.eq(Q[c][r], want)
        assert A.eq(A.det(A.matmul(a, b)), A.det(a) * A.det(b))
        assert A.eq(A.det(A.transpose(a)), A.det(a))
        ab_t = A.transpose(A.matmul(a, b))
        bt_at = A.matmul(A.transpose(b), A.transpose(a))
        assert all(A.eq(x, y) for cx, cy in zip(ab_t, bt_at) for x, y in zip(cx, cy))
    a = sm('A', 4)
    adj = A.adjugate(a)
    P = A.matmul(adj, a)
    D = A.det(a)
    assert all(A.eq(P[c][r], D if c == r else ZERO) for c in range(4) for r in range(4))
    assert A.eq(A.det(A.transpose(a)), D)


def run(tier):
    run = Run(PROP, tier, 'proof')
    spec_selfcheck()
    h = build(tier)
    msyn = h.monomorphise(['f32', 'f64'], bound='<S: BaseFloat>', method_syntax='only', soft=True)
    # (custom-spec roots written as method calls - invert, inverse_transform: an inherent method on one concrete type would shadow them)
    msyn += h.monomorphise(['f32', 'f64'], bound='<S: BaseFloat>', kinds=('invert',), method_syntax='only', soft=True)
    S, inv, meta = facts.extract(PROP, h.src())
    report_dropped(run, meta, h)
    run_specs(run, S, h, custom={'invert': check_invert})
    run.floor('roots', len(run.roots), len(h.specs))
    run.notes['monomorphic_method_syntax_roots'] = len([n_ for n_ in msyn if n_ in run.roots])
    return run.finish(
        explanation='determinant() (n=2,3,4; the 4x4 through det_sub_proc_unsafe and the flat [S;16] view) is shown ring-equal to the Leibniz sum; invert() must have the shape Ite(det == 0 exactly, None, Some(N)) with every N[c][r] field-equal to adj(M)[c][r]/det(M) where the adjugate is built from the cofactor definition; transpose_self/transpose, swap_rows/swap_columns for every index pair, swap_elements for every in-range pair of positions, replace_col and truncate_n are checked as exact permutations of the named leaves, out-of-range indices must panic on every path; inverse_transform of Matrix3 (2-D, 3-D) and Matrix4 satisfies the same inverse specification. Multiplicativity, transpose invariance and M*adj(M) = det(M) I are verified on the spec side.',
        trusted_base=['rustc nightly type checking / trait resolution / MIR construction', 'mirsum abstract interpreter: memory/view model (transmute views, ptr::swap, mem::replace, get_unchecked with concrete in-range indices)', 'rules/algebra.py normal forms and exact polynomial division', 'field semantics of + - * / on the abstract scalar'],
        not_decided=['conditioning when the determinant is tiny but non-zero: only the exact guard det == 0 is decided (rounding is outside a field-level argument)'],
        exhaustive=True)
