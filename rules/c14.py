"""C14 — lerp, nlerp and slerp interpolate with exact endpoints along the shortest path."""
from fractions import Fraction as Fr
import algebra as A
from algebra import El, ZERO, ONE
from core import (Harness, VEC, MAT, sv, sm, sq, ss, Run, Conv, run_specs, report_dropped, ret_leaves, cmp_struct, single_ret, flat, parse_guard)
import facts
import specs
import angledom as D

PROP = 'C14'
REL4 = ['lt', 'eq', 'gt', 'un']


def build():
    h = Harness(PROP)
    g = '<S: BaseFloat>'
    t = ss('a2')
    for n, (T, comps) in VEC.items():
        a, b = sv('a0', n), sv('a1', n)
        h.root('lerp__v%d' % n, '<S: BaseNum>(a: %s<S>, b: %s<S>, t: S) -> %s<S>' % (T, T, T), 'a.lerp(b, t)', ('value', [x + (y - x) * t for x, y in zip(a, b)]))
    for n, M in MAT.items():
        a, b = sm('a0', n), sm('a1', n)
        h.root('lerp__m%d' % n, g + '(a: %s<S>, b: %s<S>, t: S) -> %s<S>' % (M, M, M), 'a.lerp(b, t)', ('value', [[a[c][r] + (b[c][r] - a[c][r]) * t for r in range(n)] for c in range(n)]))
    p, q = sq('a0'), sq('a1')
    h.root('lerp__q', g + '(a: Quaternion<S>, b: Quaternion<S>, t: S) -> Quaternion<S>', 'a.lerp(b, t)', ('value', [[x + (y - x) * t for x, y in zip(p[1], q[1])], p[0] + (q[0] - p[0]) * t]))
    h.root('lerp_t0__v3', '<S: BaseNum>(a: Vector3<S>, b: Vector3<S>) -> Vector3<S>', 'a.lerp(b, S::zero())', ('value', sv('a0', 3)))
    h.root('lerp_t1__v3', '<S: BaseNum>(a: Vector3<S>, b: Vector3<S>) -> Vector3<S>', 'a.lerp(b, S::one())', ('value', sv('a1', 3)))
    h.root('nlerp', g + '(a: Quaternion<S>, b: Quaternion<S>, t: S) -> Quaternion<S>', 'a.nlerp(b, t)', ('interp', 'nlerp'))
    h.root('slerp', g + '(a: Quaternion<S>, b: Quaternion<S>, t: S) -> Quaternion<S>', 'a.slerp(b, t)', ('interp', 'slerp'))
    return h


def qflat(q):
    return list(q[1]) + [q[0]]


def check_interp(run, S, name, spec, kw):
    which = spec[1]
    r = run.use_root(S, name)
    if r is None:
        run.ob('%s:%s:present' % (PROP, name), False, rule='root-present', expected='root', found='missing')
        return
    where = r.get('span')
    cv = Conv(S)
    a, b = qflat(sq('a0')), qflat(sq('a1'))
    t = ss('a2')
    s = A.dot(a, b)
    T9995 = Fr(0.9995)
    ls = ret_leaves(r['out'])
    key0 = '%s:%s' % (PROP, name)
    if any(l['k'] != 'ret' for g_, l in ls):
        run.ob(key0 + ':analysable', False, rule='analysable', expected='only Return leaves', found=[(l['k'], l.get('why')) for g_, l in ls if l['k'] != 'ret'][:2], where=where)
        return
    n_ok = 0
    kinds = set()
    for li, (guards, leaf) in enumerate(ls):
        key = '%s:leaf%d' % (key0, li)
        # decode guards as constraints  (+-s) REL const ; keep an interval for s
        iv = D.Iv(Fr(-10**9), True, Fr(10**9), True)
        bad = []
        first_side = None
        thr = None
        for gi, (kind, tid, want) in enumerate(guards):
            tt = S.terms[tid]
            if kind == 'switch' and tt[0] == 'a' and tt[1] == 'cmp' and want is not None:
                lhs, rhs = cv.el(tt[2][0]), cv.el(tt[2][1])
                rel = REL4[want]
            elif kind == 'ite':
                g_ = parse_guard(S, cv, tid)
                if g_['kind'] not in ('lt', 'gt', 'le', 'ge'):
                    bad.append(g_['text'][:80])
                    continue
                truth = want != g_['neg']
                rel = g_['kind'] if truth else {'lt': 'ge', 'ge': 'lt', 'gt': 'le', 'le': 'gt'}[g_['kind']]
                lhs, rhs = g_['a'], g_['b']
            else:
                bad.append(S.show(tid)[:80])
                continue
            d = lhs - rhs
            sign = None
            for sg in (1, -1):
                dd = d - s * sg
                if dd.is_const():
                    sign, c = sg, -dd.const()
            if sign is None:
                bad.append(S.show(tid)[:80])
                continue
            # sign*s REL c
            if rel == 'un':
                rel = 'skip'
            if gi == 0:
                first_side = (sign, c, rel)
            elif thr is None and c != 0:
                thr = (sign, c, rel)
            r2 = rel
            bound = c * sign
            if sign < 0:
                r2 = {'lt': 'gt', 'gt': 'lt', 'le': 'ge', 'ge': 'le'}.get(rel, rel)
            if r2 == 'lt':
                iv = iv.meet_lt(bound, True)
            elif r2 == 'gt':
                iv = iv.meet_gt(bound, True)
            elif r2 == 'le':
                iv = iv.meet_lt(bound, False)
            elif r2 == 'ge':
                iv = iv.meet_gt(bound, False)
            elif r2 == 'eq':
                iv = iv.meet_lt(bound, False).meet_gt(bound, False)
        if bad:
            run.ob(key + ':guards', False, rule='K5', expected='guards compare the dot product with constants', found=bad, where=where)
            continue
        if iv.empty():
            continue            # contradictory comparison outcomes on the same quantity (interval domain)
        if first_side is None or first_side[1] != 0 or first_side[0] != 1:
            run.ob(key + ':sign-test', False, rule='K5', expected='first test: dot(a, b) against 0', found=str(first_side), where=where)
            continue
        flip = first_side[2] == 'lt'
        if not flip and iv.hi < 0:
            run.ob(key + ':sign-test', False, rule='K5', expected='a negative dot product flips b', found='unflipped leaf reachable for a.b < 0', where=where)
            continue
        bb = [-x for x in b] if flip else b
        val = flat(cv.val(leaf['v']))
        trig = False
        if which == 'slerp':
            if thr is None:
                run.ob(key + ':threshold', False, rule='K13', expected='a threshold test on |a.b|', found='none', where=where)
                continue
            tsign, tc, trel = thr
            okthr = (tc == T9995) and tsign == (-1 if flip else 1)
            run.ob(key + ':threshold', okthr, rule='K13 constant audit', expected='threshold 0.9995 applied to the sign-normalised dot product', found='%s * a.b %s %s' % (tsign, trel, float(tc)), where=where)
            trig = trel in ('lt', 'le', 'eq')
        if trig:
            dpr = -s if flip else s
            # (on this leaf the sign-normalised dot product lies in [0, 0.9995]: every clamp to [-1, 1], or none, is the same angle)
            cands = [A.fn('acos', A.fn('max', A.fn('min', dpr, ONE), -ONE)), A.fn('acos', A.fn('min', A.fn('max', dpr, -ONE), ONE)), A.fn('acos', dpr),
                     A.fn('acos', A.fn('min', dpr, ONE)), A.fn('acos', A.fn('max', dpr, -ONE))]
            ok = False
            for th in cands:
                w = A.vadd(A.vscale(a, A.fn('sin', th * (ONE - t))), A.vscale(bb, A.fn('sin', th * t)))
                sig = A.sqrt(A.dot(w, w))
                if len(val) == 4 and all(A.eq(x * sig, y) for x, y in zip(val, w)):
                    ok = True
                    break
            kinds.add('trig')
            run.ob(key + ':slerp', ok, rule='K3', expected='normalize(a sin(theta(1-t)) + b\' sin(theta t)), theta = acos(clamp(|a.b|)), b\' = +-b on the shorter arc', found=S.showval(leaf['v'])[:240], where=where)
        else:
            w = A.vadd(A.vscale(a, ONE - t), A.vscale(bb, t))
            sig = A.sqrt(A.dot(w, w))
            ok = len(val) == 4 and all(A.eq(x * sig, y) for x, y in zip(val, w))
            kinds.add('flip' if flip else 'noflip')
            run.ob(key + ':nlerp', ok, rule='K3', expected='normalize(a(1-t) %s b t)' % ('-' if flip else '+'), found=S.showval(leaf['v'])[:240], where=where)
        n_ok += 1
    need = {'flip', 'noflip'} | ({'trig'} if which == 'slerp' else set())
    run.ob(key0 + ':cases', need <= kinds, rule='K5', expected='leaves for both signs of the dot product%s' % (' and the trigonometric case' if which == 'slerp' else ''), found=sorted(kinds), where=where)


def spec_selfcheck():
    # endpoints of the nlerp / slerp forms for unit a: t = 0 gives a/|a|
    a, b = qflat(sq('A')), qflat(sq('B'))
    w0 = A.vadd(A.vscale(a, ONE), A.vscale(b, ZERO))
    sig = A.sqrt(A.dot(w0, w0))
    assert all(A.eq(x / sig * sig, x) for x in w0)


def run(tier):
    run = Run(PROP, tier, 'other')
    spec_selfcheck()
    h = build()
    msyn = h.monomorphise(['f32', 'f64'], bound=None, method_syntax='only', soft=True)   # (every single-parameter root, whatever its bound)
    S, inv, meta = facts.extract(PROP, h.src())
    report_dropped(run, meta, h)
    run_specs(run, S, h, custom={'interp': check_interp})
    run.floor('roots', len(run.roots), len(h.specs))
    run.assumed.update(A.CTX.assumed)
    run.notes['monomorphic_method_syntax_roots'] = len([n_ for n_ in msyn if n_ in run.roots])
    return run.finish(
        explanation='lerp of every VectorSpace impl (Vector1..4, Matrix2..4, Quaternion) equals a + (b - a)t (and a, b at t = 0, 1 on the composed code). nlerp: the outcome tree splits on dot(a,b) against 0; the negative side returns normalize(a(1-t) - b t), the other normalize(a(1-t) + b t). slerp: after the same sign normalisation a threshold test of the non-negative dot product against exactly 0.9995; above it the nlerp form with the already-flipped b, below it normalize(a sin(theta(1-t)) + b\' sin(theta t)) with theta = acos(clamp(dot\')). Leaves whose comparison outcomes contradict each other on the same quantity are discarded by an interval domain. Unit length, the plane of a and b, the endpoints, the shorter arc and constant angular speed of the trigonometric leaf follow from these closed forms (textbook slerp).',
        trusted_base=['rustc nightly type checking / trait resolution / MIR construction', 'mirsum abstract interpreter', 'rules/algebra.py (radical normal form)', 'sin/acos/min/max as uninterpreted symbols; textbook slerp identities'],
        not_decided=['angular-speed error within 1e-5 rad for nearly parallel inputs (the nlerp fallback region) - numerical'],
        exhaustive=True)
