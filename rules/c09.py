"""C09 — look_at / look_to build rigid view transforms with the documented handedness."""
import algebra as A
from algebra import El, ZERO, ONE
from core import (order_facts, sign_established, Harness, sv, sm, sq, ss, Run, Conv, run_specs, report_dropped, ret_leaves, cmp_struct, single_ret, parse_guard, flat)
import facts
import specs
import c05

PROP = 'C09'


def build():
    h = Harness(PROP)
    g = '<S: BaseFloat>'
    P, V = 'Point3<S>', 'Vector3<S>'
    # 4x4 view matrices: args (eye, dir|center, up)
    for fn, hand, at in (('look_to_rh', 'rh', False), ('look_to_lh', 'lh', False), ('look_at_rh', 'rh', True), ('look_at_lh', 'lh', True)):
        h.root('m4_' + fn, g + '(e: %s, d: %s, u: %s) -> Matrix4<S>' % (P, P if at else V, V), 'Matrix4::%s(e, d, u)' % fn, ('view4', hand, at))
    for fn, hand in (('look_at_rh', 'rh'), ('look_at_lh', 'lh')):
        h.root('tm4_' + fn, g + '(e: %s, c: %s, u: %s) -> Matrix4<S>' % (P, P, V), '<Matrix4<S> as Transform<Point3<S>>>::%s(e, c, u)' % fn, ('view4', hand, True))
        h.root('tm3_' + fn, g + '(e: %s, c: %s, u: %s) -> Matrix3<S>' % (P, P, V), '<Matrix3<S> as Transform<Point3<S>>>::%s(e, c, u)' % fn, ('view3', hand, True))
        h.root('tdb_' + fn, g + '(e: %s, c: %s, u: %s) -> Decomposed<Vector3<S>, Basis3<S>>' % (P, P, V), '<Decomposed<Vector3<S>, Basis3<S>> as Transform<Point3<S>>>::%s(e, c, u)' % fn, ('viewdec', hand))
        h.root('tdq_' + fn, g + '(e: %s, c: %s, u: %s) -> Decomposed<Vector3<S>, Quaternion<S>>' % (P, P, V), '<Decomposed<Vector3<S>, Quaternion<S>> as Transform<Point3<S>>>::%s(e, c, u)' % fn, ('viewdecq', hand, 'code'))
        dirx = 'e - c' if hand == 'rh' else 'c - e'
        h.root('ref_tdq_' + fn, g + '(e: %s, c: %s, u: %s) -> Quaternion<S>' % (P, P, V), 'Quaternion::from(Matrix3::look_to_lh(%s, u))' % dirx, ('viewdecq', hand, 'ref'))
    # deprecated aliases and the generic Transform::look_at (documented handedness: Matrix4 -> rh, Matrix3 / Decomposed -> lh)
    h.root('m4_look_at_deprecated', g + '(e: %s, c: %s, u: %s) -> Matrix4<S>' % (P, P, V), '{ #[allow(deprecated)] Matrix4::look_at(e, c, u) }', ('view4', 'rh', True))
    h.root('m4_look_at_dir_deprecated', g + '(e: %s, d: %s, u: %s) -> Matrix4<S>' % (P, V, V), '{ #[allow(deprecated)] Matrix4::look_at_dir(e, d, u) }', ('view4', 'rh', False))
    h.root('tm4_look_at_deprecated', g + '(e: %s, c: %s, u: %s) -> Matrix4<S>' % (P, P, V), '{ #[allow(deprecated)] <Matrix4<S> as Transform<Point3<S>>>::look_at(e, c, u) }', ('view4', 'rh', True))
    h.root('tm3_look_at_deprecated', g + '(e: %s, c: %s, u: %s) -> Matrix3<S>' % (P, P, V), '{ #[allow(deprecated)] <Matrix3<S> as Transform<Point3<S>>>::look_at(e, c, u) }', ('view3', 'lh', True))
    h.root('m3_look_at_deprecated', g + '(d: %s, u: %s) -> Matrix3<S>' % (V, V), '{ #[allow(deprecated)] Matrix3::look_at(d, u) }', ('view3', 'lh', False))
    h.root('tdb_look_at_deprecated', g + '(e: %s, c: %s, u: %s) -> Decomposed<Vector3<S>, Basis3<S>>' % (P, P, V), '{ #[allow(deprecated)] <Decomposed<Vector3<S>, Basis3<S>> as Transform<Point3<S>>>::look_at(e, c, u) }', ('viewdec', 'lh'))
    # 2-D transforms: Matrix3 as Transform<Point2> and Decomposed with Basis2
    P2, V2_ = 'Point2<S>', 'Vector2<S>'
    for fn, flip in (('look_at_lh', False), ('look_at_rh', True)):
        h.root('tm3_2d_' + fn, g + '(e: %s, c: %s, u: %s) -> Matrix3<S>' % (P2, P2, V2_), '<Matrix3<S> as Transform<Point2<S>>>::%s(e, c, u)' % fn, ('view2t', flip, 'm3'))
        h.root('tdb2_' + fn, g + '(e: %s, c: %s, u: %s) -> Decomposed<Vector2<S>, Basis2<S>>' % (P2, P2, V2_), '<Decomposed<Vector2<S>, Basis2<S>> as Transform<Point2<S>>>::%s(e, c, u)' % fn, ('view2t', flip, 'dec'))
    # 3x3: args (dir, up)
    h.root('m3_look_to_lh', g + '(d: %s, u: %s) -> Matrix3<S>' % (V, V), 'Matrix3::look_to_lh(d, u)', ('view3', 'lh', False))
    h.root('m3_look_to_rh', g + '(d: %s, u: %s) -> Matrix3<S>' % (V, V), 'Matrix3::look_to_rh(d, u)', ('view3', 'rh', False))
    h.root('b3_look_at', g + '(d: %s, u: %s) -> Basis3<S>' % (V, V), '<Basis3<S> as Rotation>::look_at(d, u)', ('view3', 'lh', False))
    h.root('q_look_at', g + '(d: %s, u: %s) -> Quaternion<S>' % (V, V), '<Quaternion<S> as Rotation>::look_at(d, u)', ('qlook', 'code'))
    h.root('ref_q_look_at', g + '(d: %s, u: %s) -> Quaternion<S>' % (V, V), 'Quaternion::from(Matrix3::look_to_lh(d, u))', ('qlook', 'ref'))
    # Quaternion::look_at (and Decomposed<_, Quaternion>) is the Matrix3 view rotation converted to a quaternion: that the conversion
    # returns a quaternion of the SAME rotation is the matrix-to-quaternion rule of C05, applied here to the code this check depends on
    h.root('dep_q_from_m3', g + '(a: Matrix3<S>) -> Quaternion<S>', 'Quaternion::from(a)', ('mat2quat', 'a0'))
    # 2-D
    V2 = 'Vector2<S>'
    h.root('m2_look_at', g + '(d: %s, u: %s) -> Matrix2<S>' % (V2, V2), 'Matrix2::look_at(d, u)', ('view2', True))
    h.root('b2_look_at', g + '(d: %s, u: %s) -> Basis2<S>' % (V2, V2), '<Basis2<S> as Rotation>::look_at(d, u)', ('view2', True))
    h.root('m2_look_at_stable', g + '(d: %s, f: bool) -> Matrix2<S>' % V2, 'Matrix2::look_at_stable(d, f)', ('view2', False))
    h.root('b2_look_at_stable', g + '(d: %s, f: bool) -> Basis2<S>' % V2, 'Basis2::look_at_stable(d, f)', ('view2', False))
    return h


def view_equations(run, key, R, t, d, up, eye, hand, where):
    """K4: the equations that determine a view transform uniquely.  R column-major 3x3."""
    rule = 'K4 characterising equations (%s-handed view)' % ('right' if hand == 'rh' else 'left')
    Rt = A.transpose(R)
    P = A.matmul(R, Rt)
    ok = all(A.eq(P[c][r], ONE if c == r else ZERO) for c in range(3) for r in range(3))
    run.ob(key + ':orthonormal', ok, rule=rule, expected='R R^T = I', found='holds' if ok else 'residue e.g. %s' % A.show((P[0][0] - ONE).norm()), where=where)
    dd = A.det(R)
    run.ob(key + ':det', A.eq(dd, ONE), rule=rule, expected='det R = +1', found=A.show(dd.norm()), where=where)
    sigma = A.sqrt(A.dot(d, d))
    Rd = A.matvec(R, d)
    sgn = -1 if hand == 'rh' else 1
    ok = A.eq(Rd[0], ZERO) and A.eq(Rd[1], ZERO) and A.eq(Rd[2], sigma * sgn)
    run.ob(key + ':axis', ok, rule=rule, expected='R d = (0, 0, %s|d|)' % ('-' if sgn < 0 else '+'), found='(%s, %s, %s)' % tuple(A.show(x.norm(), 4) for x in Rd), where=where)
    Ru = A.matvec(R, up)
    run.ob(key + ':up_x', A.eq(Ru[0], ZERO), rule=rule, expected='(R up).x = 0', found=A.show(Ru[0].norm(), 4), where=where)
    sg = A.sign(Ru[1])
    run.ob(key + ':up_y', sg == 1, rule=rule + ' + sign domain', expected='(R up).y > 0 (a positive multiple of square roots)', found='%s, sign %s' % (A.show(Ru[1].norm(), 3), sg), where=where)
    if t is not None:
        Re = A.matvec(R, eye)
        ok = all(A.eq(x, -y) for x, y in zip(t, Re))
        run.ob(key + ':eye', ok, rule=rule, expected='translation = -R eye (eye goes to the origin)', found='(%s, ...)' % A.show((t[0] + Re[0]).norm(), 4), where=where)


def unbasis(M):
    """Basis3 { mat } decodes as [mat]"""
    while isinstance(M, list) and len(M) == 1 and isinstance(M[0], list):
        M = M[0]
    return M


def check_view4(run, S, name, spec, kw):
    hand, at = spec[1], spec[2]
    sr = single_ret(run, S, name)
    if sr is None:
        return
    r, leaf = sr
    cv = Conv(S)
    M = cv.val(leaf['v'])
    eye, up = sv('a0', 3), sv('a2', 3)
    d = A.vsub(sv('a1', 3), eye) if at else sv('a1', 3)
    R = [M[c][:3] for c in range(3)]
    t = M[3][:3]
    key = '%s:%s' % (PROP, name)
    last = [M[0][3], M[1][3], M[2][3], M[3][3]]
    ok = all(A.eq(x, y) for x, y in zip(last, [ZERO, ZERO, ZERO, ONE]))
    run.ob(key + ':affine', ok, rule='K1', expected='bottom row (0,0,0,1)', found=[A.show(x) for x in last], where=r.get('span'))
    view_equations(run, key, R, t, d, up, eye, hand, r.get('span'))


def check_view3(run, S, name, spec, kw):
    hand, at = spec[1], spec[2]
    sr = single_ret(run, S, name)
    if sr is None:
        return
    r, leaf = sr
    cv = Conv(S)
    M = unbasis(cv.val(leaf['v']))
    if at:
        eye, up = sv('a0', 3), sv('a2', 3)
        d = A.vsub(sv('a1', 3), eye)
    else:
        d, up = sv('a0', 3), sv('a1', 3)
    view_equations(run, '%s:%s' % (PROP, name), M, None, d, up, None, hand, r.get('span'))


def check_viewdec(run, S, name, spec, kw):
    hand = spec[1]
    sr = single_ret(run, S, name)
    if sr is None:
        return
    r, leaf = sr
    cv = Conv(S)
    scale, rot, disp = cv.val(leaf['v'])
    eye, up = sv('a0', 3), sv('a2', 3)
    d = A.vsub(sv('a1', 3), eye)
    key = '%s:%s' % (PROP, name)
    run.ob(key + ':scale', A.eq(scale, ONE), rule='K3', expected='scale = 1', found=scale, where=r.get('span'))
    view_equations(run, key, unbasis(rot), disp, d, up, eye, hand, r.get('span'))


def trees_equal(S, cv, o1, o2, path=''):
    """structural equality of two outcome trees up to ring equality of guards and values; returns (ok, message)"""
    if o1 is None or o2 is None:
        return (o1 is None and o2 is None), path + ': missing arm'
    if o1['k'] != o2['k']:
        return False, '%s: %s vs %s' % (path, o1['k'], o2['k'])
    k = o1['k']
    if k == 'ret':
        a, b = flat(cv.val(o1['v'])), flat(cv.val(o2['v']))
        if len(a) != len(b):
            return False, path + ': arity'
        for i, (x, y) in enumerate(zip(a, b)):
            if isinstance(x, El) or isinstance(y, El):
                if not A.eq(x, y):
                    return False, '%s: component %d differs' % (path, i)
            elif x != y:
                return False, '%s: component %d differs' % (path, i)
        return True, ''
    if k == 'ite':
        if o1['c'] != o2['c']:
            g1, g2 = parse_guard(S, cv, o1['c']), parse_guard(S, cv, o2['c'])
            same = g1['kind'] == g2['kind'] and g1['neg'] == g2['neg'] and 'a' in g1 and A.eq(g1['a'], g2['a']) and A.eq(g1['b'], g2['b'])
            if not same:
                return False, '%s: guards differ: %s vs %s' % (path, g1['text'][:80], g2['text'][:80])
        ok, m = trees_equal(S, cv, o1['t'], o2['t'], path + 'T')
        if not ok:
            return ok, m
        return trees_equal(S, cv, o1['e'], o2['e'], path + 'E')
    if k == 'switch':
        if o1['c'] != o2['c'] or len(o1['arms']) != len(o2['arms']):
            return False, path + ': switch differs'
        for (v1, s1), (v2, s2) in zip(o1['arms'], o2['arms']):
            if v1 != v2:
                return False, path + ': switch arms differ'
            ok, m = trees_equal(S, cv, s1, s2, path + 's' + v1)
            if not ok:
                return ok, m
        return trees_equal(S, cv, o1['other'], o2['other'], path + 'o')
    return True, ''


def proj_tree(o, f):
    """apply f to every Return value of a tree (copy)"""
    if o is None:
        return None
    k = o['k']
    if k == 'ret':
        n = dict(o)
        n['v'] = f(o['v'])
        return n
    if k == 'ite':
        return {'k': 'ite', 'c': o['c'], 't': proj_tree(o['t'], f), 'e': proj_tree(o['e'], f)}
    if k == 'switch':
        return {'k': 'switch', 'c': o['c'], 'arms': [[v, proj_tree(s, f)] for v, s in o['arms']], 'other': proj_tree(o['other'], f)}
    return o


PAIR = {}


def check_qlook(run, S, name, spec, kw):
    PAIR.setdefault('qlook', {})[spec[1]] = name
    if len(PAIR['qlook']) < 2:
        return
    code, ref = PAIR['qlook']['code'], PAIR['qlook']['ref']
    rc, rr = run.use_root(S, code), run.use_root(S, ref)
    if rc is None or rr is None:
        run.ob('%s:%s:present' % (PROP, code), False, rule='root-present', expected='root', found='missing')
        return
    cv = Conv(S)
    ok, msg = trees_equal(S, cv, rc['out'], rr['out'])
    n = len(ret_leaves(rc['out']))
    run.ob('%s:%s:delegation' % (PROP, code), ok and n >= 4, rule='K6 delegation equality', expected='Quaternion::look_at(d, up) == Quaternion::from(Matrix3::look_to_lh(d, up)), leaf by leaf and guard by guard (%d leaves)' % n,
           found='equal' if ok else msg, where=rc.get('span'))


def check_viewdecq(run, S, name, spec, kw):
    hand, side = spec[1], spec[2]
    tag = 'dq' + hand
    PAIR.setdefault(tag, {})[side] = name
    if len(PAIR[tag]) < 2:
        return
    code, ref = PAIR[tag]['code'], PAIR[tag]['ref']
    rc, rr = run.use_root(S, code), run.use_root(S, ref)
    if rc is None or rr is None:
        run.ob('%s:%s:present' % (PROP, code), False, rule='root-present', expected='root', found='missing')
        return
    cv = Conv(S)
    where = rc.get('span')
    rot_tree = proj_tree(rc['out'], lambda v: v['a'][1])
    ok, msg = trees_equal(S, cv, rot_tree, rr['out'])
    run.ob('%s:%s:delegation' % (PROP, code), ok, rule='K6 delegation equality', expected='rot == Quaternion::from(Matrix3::look_to_lh(%s, up)) leaf by leaf' % ('eye - center' if hand == 'rh' else 'center - eye'),
           found='equal' if ok else msg, where=where)
    eye = sv('a0', 3)
    for li, (guards, leaf) in enumerate(ret_leaves(rc['out'])):
        if leaf['k'] != 'ret':
            run.ob('%s:%s:leaf%d' % (PROP, code, li), False, rule='analysable', expected='Return', found=leaf.get('why'), where=where)
            continue
        scale, rot, disp = cv.val(leaf['v'])
        q = (rot[1], rot[0])
        exp = specs.qrot(q, [-x for x in eye])
        ok = A.eq(scale, ONE) and all(A.eq(x, y) for x, y in zip(disp, exp))
        run.ob('%s:%s:leaf%d:disp' % (PROP, code, li), ok, rule='K3', expected='scale = 1 and disp = rot.rotate_vector(origin - eye)  (eye goes to the origin)', found='differs' if not ok else 'holds', where=where)


def check_view2(run, S, name, spec, kw):
    with_up = spec[1]
    r = run.use_root(S, name)
    if r is None:
        run.ob('%s:%s:present' % (PROP, name), False, rule='root-present', expected='root', found='missing')
        return
    where = r.get('span')
    cv = Conv(S)
    d = sv('a0', 2)
    up = sv('a1', 2)
    sigma = A.sqrt(A.dot(d, d))
    ls = ret_leaves(r['out'])
    if not (2 <= len(ls) <= 8) or any(l['k'] != 'ret' for g_, l in ls):
        run.ob('%s:%s:shape' % (PROP, name), False, rule='K5', expected='Return leaves (the two orientations)', found=[l['k'] for g_, l in ls], where=where)
        return
    dets = []
    for li, (guards, leaf) in enumerate(ls):
        M = cv.val(leaf['v'])
        while len(M) == 1:
            M = M[0]
        c1, c2 = M[0], M[1]
        key = '%s:%s:leaf%d' % (PROP, name, li)
        ok = A.eq(A.dot(c1, c1), ONE) and A.eq(A.dot(c2, c2), ONE) and A.eq(A.dot(c1, c2), ZERO)
        run.ob(key + ':orthonormal', ok, rule='K4', expected='orthonormal columns', found='holds' if ok else 'fails', where=where)
        ok = all(A.eq(x * sigma, y) for x, y in zip(c1, d))
        run.ob(key + ':first', ok, rule='K4', expected='first column = d/|d|', found=[A.show(x.norm(), 4) for x in c1], where=where)
        dets.append(A.det([c1, c2]))
        if with_up:
            # whatever form the test takes (if, match on partial_cmp): the path must have established that the second
            # column is on the side of up
            N = (A.dot(c2, up) * sigma).norm()
            sg = sign_established(order_facts(S, cv, guards), N)
            if sg == 'nan':
                continue
            run.ob(key + ':side', sg == 1, rule='K4 guard-refined sign', expected='second column . up >= 0 established on this branch (it equals +-guard polynomial / |d|)', found='N = %s, established sign %s' % (A.show(N, 6), sg), where=where)
    if not with_up:
        ok = len(dets) == 2 and ((A.eq(dets[0], ONE) and A.eq(dets[1], -ONE)) or (A.eq(dets[0], -ONE) and A.eq(dets[1], ONE)))
        run.ob('%s:%s:orientations' % (PROP, name), ok, rule='K4', expected='the two flip values give the two orientations (det = +1 / -1)', found=[A.show(x.norm()) for x in dets], where=where)


def check_view2t(run, S, name, spec, kw):
    """2-D look_at through the Transform trait: rotation part has orthonormal columns, the first = d/|d| with
    d = center - eye (lh) or eye - center (rh), the second on the side of up; Decomposed: disp = R(origin - eye)."""
    flip, what = spec[1], spec[2]
    r = run.use_root(S, name)
    if r is None:
        run.ob('%s:%s:present' % (PROP, name), False, rule='root-present', expected='root', found='missing')
        return
    where = r.get('span')
    cv = Conv(S)
    eye, cen, up = sv('a0', 2), sv('a1', 2), sv('a2', 2)
    d = A.vsub(eye, cen) if flip else A.vsub(cen, eye)
    sigma = A.sqrt(A.dot(d, d))
    ls = ret_leaves(r['out'])
    if not (2 <= len(ls) <= 8) or any(l['k'] != 'ret' for g_, l in ls):
        run.ob('%s:%s:shape' % (PROP, name), False, rule='K5', expected='Return leaves (the two orientations)', found=[l['k'] for g_, l in ls], where=where)
        return
    for li, (guards, leaf) in enumerate(ls):
        v = cv.val(leaf['v'])
        key = '%s:%s:leaf%d' % (PROP, name, li)
        if what == 'm3':
            c1, c2 = v[0][:2], v[1][:2]
            rest = [v[0][2], v[1][2], v[2][0], v[2][1]]
            okaff = all(A.eq(x, ZERO) for x in rest) and A.eq(v[2][2], ONE)
            run.ob(key + ':embedding', okaff, rule='K1', expected='the 2x2 rotation embedded in the 3x3 identity', found=[A.show(x) for x in rest], where=where)
            disp = None
        else:
            scale, rot, disp = v
            M = unbasis(rot)
            c1, c2 = M[0], M[1]
            run.ob(key + ':scale', A.eq(scale, ONE), rule='K3', expected='scale = 1', found=scale, where=where)
        ok = A.eq(A.dot(c1, c1), ONE) and A.eq(A.dot(c2, c2), ONE) and A.eq(A.dot(c1, c2), ZERO)
        run.ob(key + ':orthonormal', ok, rule='K4', expected='orthonormal columns', found='holds' if ok else 'fails', where=where)
        ok = all(A.eq(x * sigma, y) for x, y in zip(c1, d))
        run.ob(key + ':first', ok, rule='K4', expected='first column = d/|d| with d = %s' % ('eye - center' if flip else 'center - eye'), found=[A.show(x.norm(), 4) for x in c1], where=where)
        N = (A.dot(c2, up) * sigma).norm()
        sg = sign_established(order_facts(S, cv, guards), N)
        if sg != 'nan':
            run.ob(key + ':side', sg == 1, rule='K4 guard-refined sign', expected='second column . up >= 0 established on this branch', found='N = %s, established sign %s' % (A.show(N, 6), sg), where=where)
        if disp is not None:
            exp = A.matvec([c1, c2], [-x for x in eye])
            ok = all(A.eq(x, y) for x, y in zip(disp, exp))
            run.ob(key + ':disp', ok, rule='K3', expected='disp = rot.rotate_vector(origin - eye)', found='holds' if ok else 'fails', where=where)


def run(tier):
    run = Run(PROP, tier, 'proof')
    specs.selfcheck()
    PAIR.clear()
    h = build()
    mono_ = h.monomorphise(['f32', 'f64'], bound='<S: BaseFloat>', kinds=None, method_syntax=True, soft=True)   # concrete scalar types, both spellings: what a user of f32 / f64 really gets
    S, inv, meta = facts.extract(PROP, h.src())
    report_dropped(run, meta, h)
    run_specs(run, S, h, custom={'mat2quat': c05.check_mat2quat, 'view2t': check_view2t, 'view4': check_view4, 'view3': check_view3, 'viewdec': check_viewdec, 'viewdecq': check_viewdecq, 'qlook': check_qlook, 'view2': check_view2})
    run.floor('roots', len(run.roots), len(h.specs))
    run.assumed.update(A.CTX.assumed)
    return run.finish(
        explanation='Each 3-D look_to/look_at constructor (Matrix4 x4, Matrix3 x2, Transform::look_at_rh/lh for Matrix3, Matrix4, Decomposed with Basis3, Basis3::look_at) is summarised and its rotation part R and translation t are shown to satisfy the equations that determine a view transform uniquely: R R^T = I, det R = +1, R d = (0,0,-+|d|), (R up).x = 0, (R up).y > 0 (sign domain over square-root atoms), t = -R eye; for look_at_* d is center - eye, which also proves look_at = look_to(center - eye). Square roots are defined atoms (s^2 = radicand), reciprocals Laurent monomials; equations are decided by normal form after clearing denominators. Quaternion::look_at and the rot of Decomposed<_,Quaternion> are shown leaf-by-leaf equal to Quaternion::from(Matrix3::look_to_lh(..)) (delegation; agreement with the matrices then follows from C05) with disp = rot.rotate_vector(origin - eye). 2-D: orthonormal columns, first = d/|d|, second on the side of up by guard-refined sign, and look_at_stable gives the two orientations.',
        trusted_base=['rustc nightly type checking / trait resolution / MIR construction', 'mirsum abstract interpreter; sqrt as the real square root', 'rules/algebra.py: Laurent normal form with sqrt / reciprocal atoms, sound zero test', 'hypotheses: d != 0, up not parallel to d (radicands positive)'],
        not_decided=['degenerate inputs (excluded by the statement)', 'a re-implementation of Quaternion::look_at by a different closed formula would be reported as not matching the delegation (documented imprecision)'],
        exhaustive=True)
