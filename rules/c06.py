"""C06 — angle and axis-angle constructors give proper right-handed rotations."""
import algebra as A
from algebra import El, ZERO, ONE
from core import (Harness, sv, sm, sq, ss, Run, Conv, forms4, run_specs, report_dropped, ret_leaves, cmp_struct, single_ret, parse_guard, flat, eq_tests)
import facts
import specs
from specs import HALF, DEG2RAD

PROP = 'C06'
ANG = {'rad': ('Rad<S>', ONE), 'deg': ('Deg<S>', El.c(DEG2RAD))}


def build():
    h = Harness(PROP)
    g = '<S: BaseFloat>'
    for an, (AT, k) in ANG.items():
        # single-angle constructors: the angle is argument 0
        t = El.v('a0.0') * k
        s, c = specs.sincos(t)
        sh, ch = specs.sincos(t * HALF)
        h.root('m2_from_angle__' + an, g + '(a: %s) -> Matrix2<S>' % AT, 'Matrix2::from_angle(a)', ('value', specs.rot2(s, c)))
        h.root('b2_from_angle__' + an, g + '(a: %s) -> Basis2<S>' % AT, '<Basis2<S> as Rotation2>::from_angle(a)', ('value', specs.rot2(s, c)))
        for ax, tab, unit in (('x', specs.rot_x, [ONE, ZERO, ZERO]), ('y', specs.rot_y, [ZERO, ONE, ZERO]), ('z', specs.rot_z, [ZERO, ZERO, ONE])):
            R = tab(s, c)
            h.root('m3_from_angle_%s__%s' % (ax, an), g + '(a: %s) -> Matrix3<S>' % AT, 'Matrix3::from_angle_%s(a)' % ax, ('value', R))
            h.root('m4_from_angle_%s__%s' % (ax, an), g + '(a: %s) -> Matrix4<S>' % AT, 'Matrix4::from_angle_%s(a)' % ax, ('value', specs.embed4(R)))
            h.root('b3_from_angle_%s__%s' % (ax, an), g + '(a: %s) -> Basis3<S>' % AT, '<Basis3<S> as Rotation3>::from_angle_%s(a)' % ax, ('value', R))
            h.root('q_from_angle_%s__%s' % (ax, an), g + '(a: %s) -> Quaternion<S>' % AT, '<Quaternion<S> as Rotation3>::from_angle_%s(a)' % ax, ('value', [A.vscale(unit, sh), ch]))
            # from_angle_* equals from_axis_angle about the unit axis
            h.root('m3_axis_unit_%s__%s' % (ax, an), g + '(a: %s) -> Matrix3<S>' % AT, 'Matrix3::from_axis_angle(Vector3::unit_%s(), a)' % ax, ('value', R))
            h.root('m4_axis_unit_%s__%s' % (ax, an), g + '(a: %s) -> Matrix4<S>' % AT, 'Matrix4::from_axis_angle(Vector3::unit_%s(), a)' % ax, ('value', specs.embed4(R)))
            h.root('b3_axis_unit_%s__%s' % (ax, an), g + '(a: %s) -> Basis3<S>' % AT, '<Basis3<S> as Rotation3>::from_axis_angle(Vector3::unit_%s(), a)' % ax, ('value', R))
        # axis-angle: axis is argument 0, angle argument 1
        t = El.v('a1.0') * k
        s, c = specs.sincos(t)
        sh, ch = specs.sincos(t * HALF)
        a = sv('a0', 3)
        R = specs.rodrigues(a, s, c)
        h.root('m3_from_axis_angle__' + an, g + '(a: Vector3<S>, t: %s) -> Matrix3<S>' % AT, 'Matrix3::from_axis_angle(a, t)', ('value', R))
        h.root('m4_from_axis_angle__' + an, g + '(a: Vector3<S>, t: %s) -> Matrix4<S>' % AT, 'Matrix4::from_axis_angle(a, t)', ('value', specs.embed4(R)))
        h.root('b3_from_axis_angle__' + an, g + '(a: Vector3<S>, t: %s) -> Basis3<S>' % AT, '<Basis3<S> as Rotation3>::from_axis_angle(a, t)', ('value', R))
        h.root('q_from_axis_angle__' + an, g + '(a: Vector3<S>, t: %s) -> Quaternion<S>' % AT, '<Quaternion<S> as Rotation3>::from_axis_angle(a, t)', ('value', [A.vscale(a, sh), ch]))
        # the stated action, on the composed code: v -> v cos t + (a x v) sin t + a (a.v)(1 - cos t), |a| = 1
        h.root('m3_axis_action__' + an, g + '(a: Vector3<S>, t: %s, v: Vector3<S>) -> Vector3<S>' % AT, 'Matrix3::from_axis_angle(a, t) * v', ('axis_action', an))
        h.root('b3_axis_action__' + an, g + '(a: Vector3<S>, t: %s, v: Vector3<S>) -> Vector3<S>' % AT, '<Basis3<S> as Rotation3>::from_axis_angle(a, t).rotate_vector(v)', ('axis_action', an))
        h.root('m4_axis_action__' + an, g + '(a: Vector3<S>, t: %s, v: Vector3<S>) -> Vector3<S>' % AT, 'Transform::<Point3<S>>::transform_vector(&Matrix4::from_axis_angle(a, t), v)', ('axis_action', an))
        h.root('q_axis_action__' + an, g + '(a: Vector3<S>, t: %s, v: Vector3<S>) -> Vector3<S>' % AT, '<Quaternion<S> as Rotation3>::from_axis_angle(a, t).rotate_vector(v)', ('axis_action_half', an))
    # Basis2 / Basis3 algebra
    b2, c2 = sm('a0.mat', 2), sm('a1.mat', 2)
    b3, c3 = sm('a0.mat', 3), sm('a1.mat', 3)
    forms4(h, 'mul_b2', g, 'Basis2<S>', 'Basis2<S>', 'Basis2<S>', '*', A.matmul(b2, c2))
    forms4(h, 'mul_b3', g, 'Basis3<S>', 'Basis3<S>', 'Basis3<S>', '*', A.matmul(b3, c3))
    h.root('one_b2', g + '() -> Basis2<S>', '<Basis2<S> as One>::one()', ('value', A.identity(2)))
    h.root('one_b3', g + '() -> Basis3<S>', '<Basis3<S> as One>::one()', ('value', A.identity(3)))
    h.root('invert_b2', g + '(a: &Basis2<S>) -> Basis2<S>', 'Rotation::invert(a)', ('basis_invert', 2))
    h.root('invert_b3', g + '(a: &Basis3<S>) -> Basis3<S>', 'Rotation::invert(a)', ('basis_invert', 3))
    v2, v3 = sv('a1', 2), sv('a1', 3)
    h.root('rotate_vector_b2', g + '(a: &Basis2<S>, v: Vector2<S>) -> Vector2<S>', 'Rotation::rotate_vector(a, v)', ('value', A.matvec(b2, v2)))
    h.root('rotate_point_b2', g + '(a: &Basis2<S>, p: Point2<S>) -> Point2<S>', 'Rotation::rotate_point(a, p)', ('value', A.matvec(b2, v2)))
    h.root('rotate_vector_b3', g + '(a: &Basis3<S>, v: Vector3<S>) -> Vector3<S>', 'Rotation::rotate_vector(a, v)', ('value', A.matvec(b3, v3)))
    h.root('rotate_point_b3', g + '(a: &Basis3<S>, p: Point3<S>) -> Point3<S>', 'Rotation::rotate_point(a, p)', ('value', A.matvec(b3, v3)))
    q = sq('a0')
    h.root('rotate_point_q', g + '(a: &Quaternion<S>, p: Point3<S>) -> Point3<S>', 'Rotation::rotate_point(a, p)', ('value', specs.qrot(q, v3)))
    # the quaternion as a `Rotation` (the algebra itself is C04's): r * invert(r) = one(), composition is the Hamilton product
    h.root('rotate_vector_q', g + '(a: &Quaternion<S>, v: Vector3<S>) -> Vector3<S>', 'Rotation::rotate_vector(a, v)', ('value', specs.qrot(q, v3)))
    qn2 = specs.qnorm2(q)
    qc = specs.qconj(q)
    h.root('invert_q', g + '(a: &Quaternion<S>) -> Quaternion<S>', 'Rotation::invert(a)', ('value', [[x / qn2 for x in qc[1]], qc[0] / qn2]))
    h.root('q_times_invert_q', g + '(a: Quaternion<S>) -> Quaternion<S>', 'a * Rotation::invert(&a)', ('value', [[ZERO] * 3, ONE]))
    h.root('invert_q_times_q', g + '(a: Quaternion<S>) -> Quaternion<S>', 'Rotation::invert(&a) * a', ('value', [[ZERO] * 3, ONE]))
    h.root('one_q', g + '() -> Quaternion<S>', '<Quaternion<S> as One>::one()', ('value', [[ZERO] * 3, ONE]))
    pq = specs.qmul(q, sq('a1'))
    forms4(h, 'mul_q', g, 'Quaternion<S>', 'Quaternion<S>', 'Quaternion<S>', '*', [list(pq[1]), pq[0]])
    h.root('m2_from_b2', g + '(a: Basis2<S>) -> Matrix2<S>', 'Matrix2::from(a)', ('value', b2), rule='K1 copy provenance')
    # 2-D images of the basis vectors
    t = El.v('a0.0')
    s, c = specs.sincos(t)
    h.root('b2_image_e1', g + '(a: Rad<S>) -> Vector2<S>', '<Basis2<S> as Rotation2>::from_angle(a).rotate_vector(Vector2::unit_x())', ('value', [c, s]))
    h.root('b2_image_e2', g + '(a: Rad<S>) -> Vector2<S>', '<Basis2<S> as Rotation2>::from_angle(a).rotate_vector(Vector2::unit_y())', ('value', [-s, c]))
    h.root('m2_image_e1', g + '(a: Rad<S>) -> Vector2<S>', 'Matrix2::from_angle(a) * Vector2::unit_x()', ('value', [c, s]))
    h.root('m2_image_e2', g + '(a: Rad<S>) -> Vector2<S>', 'Matrix2::from_angle(a) * Vector2::unit_y()', ('value', [-s, c]))
    return h


def check_axis_action(run, S, name, spec, kw):
    sr = single_ret(run, S, name)
    if sr is None:
        return
    r, leaf = sr
    cv = Conv(S)
    an = spec[1]
    k = ANG[an][1]
    t = El.v('a1.0') * k
    a, v = sv('a0', 3), sv('a2', 3)
    half = spec[0] == 'axis_action_half'
    if half:
        sh, ch = specs.sincos(t * HALF)
        s, c = sh * ch * 2, ch * ch - sh * sh
        rels = [specs.unit_vec_hyp('a0')]      # sin^2 + cos^2 = 1 is a defining relation of the trig atoms (algebra.sincos)
        rule = 'K3: action of the half-angle quaternion = Rodrigues formula with sin t = 2 sin(t/2)cos(t/2), cos t = cos^2 - sin^2, |a| = 1'
    else:
        s, c = specs.sincos(t)
        rels = [specs.unit_vec_hyp('a0')]
        rule = 'K3: v cos t + (a x v) sin t + a (a.v)(1 - cos t), |a| = 1'
    with specs.hyps(*rels):
        exp = A.vadd(A.vadd(A.vscale(v, c), A.vscale(A.cross(a, v), s)), A.vscale(a, A.dot(a, v) * (ONE - c)))
        cmp_struct(run, S, name, cv.val(leaf['v']), exp, rule, where=r.get('span'))


def check_basis_invert(run, S, name, spec, kw):
    """r * invert(r) = one() for every ROTATION r, whatever the implementation (matrix inverse with a determinant test,
    transpose, ...): the basis matrix is parametrised as a general rotation - M(q) of a unit quaternion in 3-D, [[c,s],[-s,c]]
    with c^2 + s^2 = 1 in 2-D - and every feasible leaf N must satisfy N R = R N = 1.  A branch whose condition is
    refuted by the parametrisation (det R == 0 with det R = 1) is infeasible."""
    n = spec[1]
    r = run.use_root(S, name)
    if r is None:
        run.ob('%s:%s:present' % (PROP, name), False, rule='root-present', expected='root', found='missing')
        return
    where = r.get('span')
    key = '%s:%s' % (PROP, name)
    comps = 'xyz'[:n]
    rels = []
    if n == 3:
        R = specs.q_matrix(sq('r'))
        rels = [specs.unit_quat_hyp('r')]
    else:
        sn, cs = specs.sincos(El.v('r.t'))
        R = specs.rot2(sn, cs)
    with specs.hyps(*rels):
        env = {'a0.mat.%s.%s' % (comps[c], comps[r_]): R[c][r_] for c in range(n) for r_ in range(n)}
        cv = Conv(S, env=env)
        feasible = 0
        for li, (guards, leaf) in enumerate(ret_leaves(r['out'])):
            infeasible = False
            for kind, tid, want in guards:
                for d, truth, text in eq_tests(S, cv, kind, tid, want):
                    d = d.norm()
                    if d.zero() and not truth:
                        infeasible = True
                    if d.is_const() and not d.zero() and truth:
                        infeasible = True
            if infeasible:
                continue
            feasible += 1
            if not run.ob('%s:leaf%d:kind' % (key, li), leaf['k'] == 'ret', rule='K5', expected='a rotation is always invertible: Return', found='%s %s' % (leaf['k'], leaf.get('why', '')), where=where):
                continue
            N = cv.val(leaf['v'])
            while len(N) == 1:
                N = N[0]
            I = A.identity(n)
            for nm, P in (('left', A.matmul(N, R)), ('right', A.matmul(R, N))):
                ok = all(A.eq(P[c][r_], I[c][r_]) for c in range(n) for r_ in range(n))
                run.ob('%s:leaf%d:%s-inverse' % (key, li, nm), ok, rule='K3: invert(r) r = r invert(r) = one() for a general rotation r', expected='identity', found='holds' if ok else [A.show(x.norm(), 3) for x in flat(P)][:4], where=where)
        run.ob(key + ':feasible', feasible >= 1, rule='K5', expected='at least one feasible outcome for a rotation', found=feasible, where=where)


def run(tier):
    run = Run(PROP, tier, 'proof')
    specs.selfcheck()
    h = build()
    msyn = h.monomorphise(['f32', 'f64'], bound=None, kinds=None, method_syntax='only', soft=True)
    S, inv, meta = facts.extract(PROP, h.src())
    report_dropped(run, meta, h)
    run_specs(run, S, h, custom={'axis_action': check_axis_action, 'axis_action_half': check_axis_action, 'basis_invert': check_basis_invert})
    run.floor('roots', len(run.roots), len(h.specs))
    run.notes['monomorphic_method_syntax_roots'] = len([n_ for n_ in msyn if n_ in run.roots])
    return run.finish(
        explanation='For angle arguments in Rad and in Deg: Matrix2/Basis2::from_angle equal the counter-clockwise 2-D rotation table (images of the basis vectors read off the composed code); Matrix3/Matrix4/Basis3::from_angle_x/y/z equal the elementary tables, from_axis_angle equals the Rodrigues matrix c I + s [a]x + (1-c) a a^T entry by entry (sin/cos of the radian measure as function symbols), and from_axis_angle about a unit axis equals from_angle_*; Quaternion::from_axis_angle = (cos t/2, a sin t/2) with the half factor exact; the stated action v cos t + (a x v) sin t + a(a.v)(1-cos t) is checked on Matrix3*v, Basis3, Matrix4 (as a direction) and the quaternion (under the double-angle relations) for unit a. Basis2/Basis3 Mul = matrix product, one = identity, invert = matrix inverse panicking exactly on a zero determinant, rotate_point = rotate_vector of the position vector for Basis2, Basis3, Quaternion. The quaternion as a Rotation: rotate_vector = v + 2 qv x (qv x v + s v), invert = conj/|q|^2 with q*invert(q) = invert(q)*q = one() on the composed code, one() = (1; 0), Mul (all four spellings) = the Hamilton product. Fixing the axis, orthonormality, det = +1 and angle additivity are verified on the spec side.',
        trusted_base=['rustc nightly type checking / trait resolution / MIR construction', 'mirsum abstract interpreter; sin/cos/sin_cos as uninterpreted symbols of the radian measure', 'rules/algebra.py, rules/specs.py (selfcheck)', 'constant pi/180 taken at its exact binary value'],
        not_decided=['agreement of the platform sin/cos with the real functions'],
        exhaustive=True)
