"""Normal forms for the rule layer (DESIGN §5).

Elements are Laurent polynomials with Fraction coefficients over *atoms*.  Atoms are
  base    : input components, applications of uninterpreted function symbols
  sqrt P  : a defined atom s with  s*s = P        (P a polynomial over other atoms)
  inv  P  : a defined atom i with  i*P = 1        (P a multi-term polynomial)
Only these defining relations (and explicitly named hypotheses) are ever applied, so a
difference that normalises to the empty sum is identically zero wherever the side
conditions (P != 0, P > 0) hold.  No solver, no numeric evaluation.
"""
from fractions import Fraction as Fr
import math


class Ctx:
    """Atom registry.  One per check run."""

    def __init__(self):
        self.names = []
        self.index = {}
        self.kind = {}      # id -> ('base',) | ('sqrt', El) | ('inv', El) | ('fn', name, (El,...))
        self.bykey = {}
        self.hyps = {}      # atom id -> (power k, El) : atom^k rewrites to El
        self.trig = {}      # cos-atom id -> (2, 1 - sin^2): the defining relation of a sin/cos pair (never cleared)
        self.assumed = []   # side conditions introduced (strings)

    def atom(self, name, kind=('base',)):
        i = self.index.get(name)
        if i is None:
            i = len(self.names)
            self.index[name] = i
            self.names.append(name)
            self.kind[i] = kind
        return i


CTX = Ctx()


def reset():
    global CTX
    CTX = Ctx()
    return CTX


def _mmul(m1, m2):
    if not m1:
        return m2
    if not m2:
        return m1
    d = dict(m1)
    for v, e in m2:
        x = d.get(v, 0) + e
        if x == 0:
            del d[v]
        else:
            d[v] = x
    return tuple(sorted(d.items()))


def _okey(m):
    return tuple((-a, e) for a, e in m)


class El:
    __slots__ = ('t',)

    def __init__(self, t=None):
        self.t = t if t is not None else {}

    # ---- constructors
    @staticmethod
    def c(x):
        x = Fr(x)
        return El({(): x}) if x != 0 else El()

    @staticmethod
    def v(name):
        return El({((CTX.atom(name), 1),): Fr(1)})

    @staticmethod
    def a(i, e=1):
        return El({((i, e),): Fr(1)})

    # ---- ring operations
    def __add__(a, b):
        b = _el(b)
        if len(a.t) < len(b.t):
            a, b = b, a
        r = dict(a.t)
        for m, c in b.t.items():
            x = r.get(m, 0) + c
            if x == 0:
                r.pop(m, None)
            else:
                r[m] = x
        return El(r)

    __radd__ = __add__

    def __neg__(a):
        return El({m: -c for m, c in a.t.items()})

    def __sub__(a, b):
        return a + (-_el(b))

    def __rsub__(a, b):
        return _el(b) + (-a)

    def rawmul(a, b):
        r = {}
        for m1, c1 in a.t.items():
            for m2, c2 in b.t.items():
                m = _mmul(m1, m2)
                x = r.get(m, 0) + c1 * c2
                if x == 0:
                    r.pop(m, None)
                else:
                    r[m] = x
        return El(r)

    def __mul__(a, b):
        b = _el(b)
        r = a.rawmul(b)
        return r.norm() if r.has_defined() else r

    __rmul__ = __mul__

    def __truediv__(a, b):
        return a * inv(_el(b))

    def __rtruediv__(a, b):
        return _el(b) * inv(a)

    def __pow__(a, k):
        r = ONE
        for _ in range(k):
            r = r * a
        return r

    # ---- inspection
    def zero(a):
        return not a.t

    def key(a):
        return tuple(sorted(a.t.items()))

    def is_const(a):
        return all(m == () for m in a.t)

    def const(a):
        return a.t.get((), Fr(0))

    def atoms(a):
        return {v for m in a.t for v, _ in m}

    def has_defined(a):
        K = CTX.kind
        H = CTX.hyps
        T = CTX.trig
        for m in a.t:
            for v, e in m:
                if K[v][0] in ('sqrt', 'inv') or v in H or (e >= 2 and v in T):
                    return True
        return False

    def split(a):
        """group by the defined-atom part of each monomial"""
        K = CTX.kind
        g = {}
        for m, c in a.t.items():
            e = tuple((v, x) for v, x in m if K[v][0] in ('sqrt', 'inv'))
            b = tuple((v, x) for v, x in m if K[v][0] not in ('sqrt', 'inv'))
            g.setdefault(e, {})[b] = c
        return {e: El(t) for e, t in g.items()}

    def norm(a):
        K = CTX.kind
        for _ in range(60):
            changed = False
            if CTX.hyps or CTX.trig:
                a2 = apply_hyps(a)
                if a2 is not a:
                    a = a2
            out = El()
            for emon, poly in a.split().items():
                emon = dict(emon)
                for v in sorted(emon, reverse=True):
                    e = emon[v]
                    kind = K[v]
                    if kind[0] == 'sqrt':
                        rad = kind[1]
                        while e >= 2:
                            poly = poly.rawmul(rad)
                            e -= 2
                            changed = True
                        while e <= -1:
                            q = exact_div(poly, rad)
                            if q is None:
                                break
                            poly = q
                            e += 2
                            changed = True
                    elif kind[0] == 'inv':
                        den = kind[1]
                        while e <= -1:
                            poly = poly.rawmul(den)
                            e += 1
                            changed = True
                        while e >= 1:
                            q = exact_div(poly, den)
                            if q is None:
                                break
                            poly = q
                            e -= 1
                            changed = True
                    if e == 0:
                        del emon[v]
                    else:
                        emon[v] = e
                mon = tuple(sorted(emon.items()))
                out = out + (poly.rawmul(El({mon: Fr(1)})) if mon else poly)
            a = out
            if not changed:
                break
        return a

    def __repr__(a):
        return show(a)


def _el(x):
    return x if isinstance(x, El) else El.c(x)


ZERO = El()
ONE = El({(): Fr(1)})


def show(a, limit=14):
    if not a.t:
        return '0'
    N = CTX.names
    parts = []
    for m, c in sorted(a.t.items(), key=lambda mc: _okey(mc[0]))[:limit]:
        ms = '*'.join((N[v] if e == 1 else '%s^%d' % (N[v], e)) for v, e in m)
        if not ms:
            parts.append(str(c))
        elif c == 1:
            parts.append(ms)
        elif c == -1:
            parts.append('-' + ms)
        else:
            parts.append('%s*%s' % (c, ms))
    s = ' + '.join(parts)
    if len(a.t) > limit:
        s += ' + ...(%d terms)' % len(a.t)
    return s


def apply_hyps(a):
    """rewrite atom^k -> poly for the named hypotheses (each with a private leading atom)"""
    H = CTX.hyps
    T = CTX.trig
    for _ in range(200):
        hit = False
        out = {}
        for m, c in a.t.items():
            for idx, (v, e) in enumerate(m):
                h = H.get(v) or T.get(v)
                if h is not None and e >= h[0]:
                    rest = m[:idx] + (((v, e - h[0]),) if e > h[0] else ()) + m[idx + 1:]
                    for m2, c2 in h[1].t.items():
                        mm = _mmul(rest, m2)
                        x = out.get(mm, 0) + c * c2
                        if x == 0:
                            out.pop(mm, None)
                        else:
                            out[mm] = x
                    hit = True
                    break
            else:
                x = out.get(m, 0) + c
                if x == 0:
                    out.pop(m, None)
                else:
                    out[m] = x
        if not hit:
            return a
        a = El(out)
    return a


def add_hyp(atom_name, power, poly):
    """hypothesis  atom^power = poly  (poly must not contain atom to a power >= `power`)"""
    CTX.hyps[CTX.atom(atom_name)] = (power, poly)


def clear_hyps():
    CTX.hyps.clear()


def is_poly(p):
    return all(e > 0 for m in p.t for v, e in m)


def lead(p):
    return max(p.t.keys(), key=_okey)


def _mdiv(m1, m2):
    d = dict(m1)
    for v, e in m2:
        if d.get(v, 0) < e:
            return None
        d[v] -= e
        if d[v] == 0:
            del d[v]
    return tuple(sorted(d.items()))


def exact_div(a, b):
    """a / b when b divides a exactly (both treated as polynomials in all atoms); else None"""
    if b.zero():
        return None
    if not is_poly(b):
        return None
    shift = None
    if not is_poly(a):
        # clear negative exponents of `a` by a monomial factor, divide, shift back
        mins = {}
        for m in a.t:
            for v, e in m:
                if e < 0 and e < mins.get(v, 0):
                    mins[v] = e
        up = tuple(sorted((v, -e) for v, e in mins.items()))
        a = a.rawmul(El({up: Fr(1)}))
        shift = tuple((v, -e) for v, e in up)
    if len(b.t) == 1:
        (mb, cb), = b.t.items()
        r = {}
        for m, c in a.t.items():
            q = _mdiv(m, mb)
            if q is None:
                return None
            r[q] = c / cb
        q = El(r)
    else:
        q = {}
        r = dict(a.t)
        lb = lead(b)
        cb = b.t[lb]
        bitems = list(b.t.items())
        for _ in range(200000):
            if not r:
                break
            lr = max(r.keys(), key=_okey)
            m = _mdiv(lr, lb)
            if m is None:
                return None
            coef = r[lr] / cb
            q[m] = q.get(m, 0) + coef
            for mb, c in bitems:
                mm = _mmul(m, mb)
                x = r.get(mm, 0) - coef * c
                if x == 0:
                    r.pop(mm, None)
                else:
                    r[mm] = x
        else:
            return None
        q = El({m: c for m, c in q.items() if c != 0})
    if shift:
        q = q.rawmul(El({shift: Fr(1)}))
    return q


def inv(x):
    x = x.norm() if x.has_defined() else x
    if x.zero():
        raise ZeroDivisionError('inverse of zero')
    if len(x.t) == 1:
        (m, c), = x.t.items()
        r = El({tuple((v, -e) for v, e in m): 1 / c})
        return r.norm() if r.has_defined() else r
    # factor out monomial content so that the keyed polynomial is primitive and sign-canonical
    lm = lead(x)
    lc = x.t[lm]
    allv = {v for m in x.t for v, _ in m}
    gm = {}
    for v in allv:
        e = min(dict(m).get(v, 0) for m in x.t)
        if e != 0:
            gm[v] = e
    gm = tuple(sorted(gm.items()))
    ginv = tuple((v, -e) for v, e in gm)
    mon = El({_mmul(m, ginv): c / lc for m, c in x.t.items()})
    k = ('inv', mon.key())
    if k not in CTX.bykey:
        CTX.bykey[k] = CTX.atom('inv[%s]' % show(mon, 6), ('inv', mon))
        CTX.assumed.append('%s != 0' % show(mon, 8))
    r = El({_mmul(((CTX.bykey[k], 1),), ginv): 1 / lc})
    return r


def _rsqrt(c):
    if c <= 0:
        return None
    rn, rd = math.isqrt(c.numerator), math.isqrt(c.denominator)
    return Fr(rn, rd) if rn * rn == c.numerator and rd * rd == c.denominator else None


def _positive_atom(v):
    return CTX.kind[v][0] == 'sqrt'


def sqrt(x):
    """principal square root.  Only provably positive factors (sqrt atoms, square rational content) are
    pulled out of the radical: sqrt(x^2) stays a defined atom s with s^2 = x^2 (it is |x|, not x)."""
    x = x.norm() if x.has_defined() else x
    if x.zero():
        return x
    g = x.split()
    if len(g) == 1:
        (emon, poly), = g.items()
        if all(e % 2 == 0 and _positive_atom(v) for v, e in emon):
            half = El({tuple((v, e // 2) for v, e in emon): Fr(1)})
            return _sigma(poly).rawmul(half).norm()
    return _sigma(x)


def _sigma(p):
    # square rational content of the leading coefficient
    lc = p.t[lead(p)]
    scale = Fr(1)
    r = _rsqrt(abs(lc))
    if r is not None and lc > 0:
        p = El({m: c / lc for m, c in p.t.items()})
        scale = r
    res = El.c(scale)
    if len(p.t) == 1 and () in p.t and p.t[()] == 1:
        return res
    K = CTX.kind
    if is_poly(p):
        for v, kind in list(K.items()):
            if kind[0] == 'sqrt' and is_poly(kind[1]) and any(m_ != () for m_ in kind[1].t):
                # (a constant radicand divides everything: it is handled by the rational content, never pulled out here)
                for _guard in range(64):
                    q = exact_div(p, kind[1])
                    if q is None:
                        break
                    q2 = exact_div(q, kind[1])
                    if q2 is not None:
                        # rad^2 divides p: sqrt(rad^2) = |rad| = (sqrt rad)^2
                        p = q2
                        res = res.rawmul(El.a(v, 2))
                    else:
                        p = q
                        res = res.rawmul(El.a(v))
                        break
                if len(p.t) == 1 and () in p.t:
                    break
    if len(p.t) == 1 and () in p.t:
        c = p.t[()]
        r = _rsqrt(c)
        if r is not None:
            return res.rawmul(El.c(r)).norm()
    k = ('sqrt', p.key())
    if k not in CTX.bykey:
        CTX.bykey[k] = CTX.atom('sqrt[%s]' % show(p, 6), ('sqrt', p))
        CTX.assumed.append('%s > 0' % show(p, 8))
    return res.rawmul(El.a(CTX.bykey[k])).norm()


def substitute(e, mapping):
    """replace base atoms (by id) with elements"""
    if not mapping or not (e.atoms() & set(mapping)):
        return e
    out = ZERO
    for m, c in e.t.items():
        term = El.c(c)
        for v, k in m:
            if v in mapping:
                if k < 0:
                    term = term * inv(mapping[v] ** (-k))
                else:
                    term = term * (mapping[v] ** k)
            else:
                term = term * El({((v, k),): Fr(1)})
        out = out + term
    return out


TRIG_MAXMULT = 4


def _raw_fn(name, args):
    k = ('fn', name, tuple(a.key() for a in args))
    if k not in CTX.bykey:
        CTX.bykey[k] = CTX.atom('%s(%s)' % (name, ', '.join(show(a, 6) for a in args)), ('fn', name, args))
    return CTX.bykey[k]


def _trig_pair(L):
    """(sin L, cos L) for a one-term angle with positive coefficient: a pair of atoms tied by cos^2 = 1 - sin^2"""
    si = _raw_fn('sin', (L,))
    ci = _raw_fn('cos', (L,))
    if ci not in CTX.trig:
        CTX.trig[ci] = (2, ONE - El.a(si, 2))
    return El.a(si), El.a(ci)


def sincos(L):
    """Normal form of (sin L, cos L).  The angle is split into its monomials by the addition theorems, small
    integer multiples are expanded, odd/even symmetry fixes the sign of the coefficient, and sin/cos of
    acos / asin / atan2 are written algebraically; what remains are atom pairs (sin u, cos u) with cos u^2 -> 1 - sin u^2.
    Polynomials in such pairs have a unique normal form, so two trigonometric expressions that agree by these
    identities normalise to the same element."""
    L = _el(L)
    L = L.norm() if L.has_defined() else L
    if L.zero():
        return ZERO, ONE
    terms = sorted(L.t.items(), key=lambda mc: _okey(mc[0]))
    if len(terms) > 1:
        m0, c0 = terms[0]
        first = El({m0: c0})
        s1, c1 = sincos(first)
        s2, c2 = sincos(L - first)
        return s1 * c2 + c1 * s2, c1 * c2 - s1 * s2
    (m, c), = terms
    if c < 0:
        s_, c_ = sincos(-L)
        return -s_, c_
    if m and c != 1:
        # small rational multiple p/q of the unit angle m/q
        p_, q_ = c.numerator, c.denominator
        if 2 <= p_ <= TRIG_MAXMULT and q_ <= 8:
            U = El({m: Fr(1, q_)})
            su, cu = sincos(U)
            s_, c_ = su, cu
            for _ in range(p_ - 1):
                s_, c_ = s_ * cu + c_ * su, c_ * cu - s_ * su
            return s_.norm(), c_.norm()
    if c == 1 and len(m) == 1 and m[0][1] == 1:
        kd = CTX.kind[m[0][0]]
        if kd[0] == 'fn' and kd[1] == 'acos':
            x = kd[2][0]
            return sqrt(ONE - x * x), x
        if kd[0] == 'fn' and kd[1] == 'asin':
            x = kd[2][0]
            return x, sqrt(ONE - x * x)
        if kd[0] == 'fn' and kd[1] == 'atan2':
            y, x = kd[2]
            n2 = x * x + y * y
            if not n2.zero():
                r = inv(sqrt(n2))
                return y * r, x * r
    return _trig_pair(L)


def denominators(e, _seen=None):
    """The quantities whose vanishing makes the expression undefined: P for every inv[P] that occurs, the atom itself for a
    negative power of a plain / function atom, the radicand for a negative power of a square root - also inside the
    definitions of the atoms that occur (arguments of functions, radicands, inverted polynomials)."""
    if _seen is None:
        _seen = {}
    e = e.norm() if e.has_defined() else e
    out = []
    for m in e.t:
        for v, k in m:
            kind = CTX.kind[v]
            if (v, k < 0) in _seen:
                continue
            _seen[(v, k < 0)] = True
            if kind[0] == 'inv':
                if k > 0:
                    out.append(kind[1])
                out.extend(denominators(kind[1], _seen))
            elif kind[0] == 'sqrt':
                if k < 0:
                    out.append(kind[1])
                out.extend(denominators(kind[1], _seen))
            elif kind[0] == 'fn':
                if k < 0:
                    out.append(El.a(v))
                for a_ in kind[2]:
                    if isinstance(a_, El):
                        out.extend(denominators(a_, _seen))
            elif k < 0:
                out.append(El.a(v))
    return out


def _base_vars(e, _seen=None):
    """the plain input atoms an expression depends on, through function arguments, radicands and inverted polynomials"""
    out = set()
    if _seen is None:
        _seen = set()
    for v in e.atoms():
        if v in _seen:
            continue
        _seen.add(v)
        kd = CTX.kind[v]
        if kd[0] in ('sqrt', 'inv'):
            out |= _base_vars(kd[1], _seen)
        elif kd[0] == 'fn':
            for a_ in kd[2]:
                if isinstance(a_, El):
                    out |= _base_vars(a_, _seen)
        else:
            out.add(v)
    return out


def _positive_definite(p):
    """a sum of even powers with positive coefficients plus a positive constant (1 + x^2): never zero over the reals"""
    p = p.norm() if p.has_defined() else p
    const = p.t.get((), 0)
    if const <= 0:
        return False
    for m, c in p.t.items():
        if m == ():
            continue
        if c < 0:
            return False
        for v, e in m:
            if e % 2 != 0 and not _positive_atom(v):
                return False
    return True


def uncovered_denominators(found, expected, nonzero=()):
    """Denominators of `found` that are not accounted for: not a non-zero constant, not positive definite, not (a factor of
    a product of) the denominators of `expected` - where the specified value itself is undefined - and not (a factor of) a
    quantity established non-zero on the path.  A non-empty answer means the code divides by something that can vanish at
    a point where the specification has a value, however the two agree as rational functions."""
    df = denominators(found)
    if not df:
        return []
    de = denominators(expected) + [n for n in nonzero]
    de = [d.norm() if d.has_defined() else d for d in de]
    de = [d for d in de if not d.zero()]
    # bring all of them to the finest angle unit that occurs in any (1 + cos t and cos(t/2) vanish together)
    alld = [(_d.norm() if _d.has_defined() else _d) for _d in df] + de
    marks = [El.v('__den%d' % i) for i in range(len(alld))]
    comb = ZERO
    for m_, x_ in zip(marks, alld):
        comb = comb + m_ * x_
    ref = _trig_refine(comb.norm())
    if ref is not None:
        parts = []
        for m_ in marks:
            mv = m_.atoms().pop() if hasattr(m_, 'atoms') else None
            sel = {}
            for mono, c in ref.t.items():
                if any(v == mv and e == 1 for v, e in mono):
                    sel[tuple((v, e) for v, e in mono if v != mv)] = c
            parts.append(El(sel).norm())
        df = parts[:len(df)]
        de = [x_ for x_ in parts[len(df):] if not x_.zero()]
    out = []
    for d in df:
        d = d.norm() if d.has_defined() else d
        if d.zero():
            out.append(d)
            continue
        if not any(m != () for m in d.t):
            continue                          # a non-zero constant
        if _positive_definite(d):
            continue
        ok = False
        for e_ in de:
            try:
                if eq(d * El.c(e_.t[lead(e_)]), e_ * El.c(d.t[lead(d)])):
                    ok = True
                    break
            except Exception:
                pass
        if not ok and de and is_poly(d):
            prod = ONE
            dvars = _base_vars(d)
            for e_ in de:
                # (only factors that depend on some input d depends on can help)
                if is_poly(e_) and (_base_vars(e_) & dvars):
                    prod = prod * e_
            try:
                ok = (not prod.zero()) and any(m != () for m in prod.t) and (in_ideal(prod.norm(), [d]) or in_ideal((prod * prod).norm(), [d]))
            except Exception:
                ok = False
        if not ok:
            out.append(d)
    return out


def in_ideal(D, gens, max_cols=2500):
    """Is D = sum g_i * gens_i for polynomials g_i with deg(g_i) <= deg(D) - deg(gens_i)?  Decided by linear algebra over Q
    (the unknowns are the coefficients of the g_i).  All atoms - plain, defined or function symbols - are indeterminates,
    so a positive answer means D vanishes wherever every generator does; a negative answer means nothing (the test is
    complete only up to the degree bound).  D and the generators must be free of negative exponents."""
    D = D.norm() if D.has_defined() else D
    if D.zero():
        return True
    gens = [g for g in gens if g is not None and not g.zero() and is_poly(g)]
    if not gens or not is_poly(D):
        return False

    def deg(p):
        return max(sum(e for _, e in m) for m in p.t)
    dD = deg(D)
    vars_ = sorted(set(v for p in [D] + gens for m in p.t for v, _ in m))

    def monos(d):
        out = [()]
        frontier = [()]
        for _ in range(d):
            nxt = set()
            for m in frontier:
                last = m[-1][0] if m else -1
                for v in vars_:
                    mm = _mmul(m, ((v, 1),))
                    nxt.add(mm)
            frontier = sorted(nxt)
            out.extend(frontier)
        return sorted(set(out))
    cols = []
    import math as _math
    for g in gens:
        k = dD - deg(g)
        if k < 0:
            continue
        if _math.comb(len(vars_) + k, k) > max_cols:
            return False          # (the multiplier space alone exceeds the budget: undecided)
        for m in monos(k):
            cols.append(g.rawmul(El({m: Fr(1)})))
            if len(cols) > max_cols:
                return False
    if not cols:
        return False
    # Gaussian elimination on the monomial-indexed system  sum c_j cols_j = D
    rows = {}
    for j, cpoly in enumerate(cols):
        for m, c in cpoly.t.items():
            rows.setdefault(m, {})[j] = c
    rhs = dict(D.t)
    if any(m not in rows for m in rhs):
        return False
    eqs = []
    for m, r in rows.items():
        eqs.append((dict(r), rhs.get(m, Fr(0))))
    piv = {}
    for r, b in eqs:
        # reduce by existing pivots
        while True:
            cand = [j for j in r if j in piv]
            if not cand:
                break
            j = min(cand)
            pr, pb = piv[j]
            f = r[j] / pr[j]
            for jj, cc in pr.items():
                x = r.get(jj, 0) - f * cc
                if x == 0:
                    r.pop(jj, None)
                else:
                    r[jj] = x
            b = b - f * pb
        if not r:
            if b != 0:
                return False
            continue
        j0 = min(r.keys())
        piv[j0] = (r, b)
    return True


def deep_substitute(e, mapping, _memo=None):
    """replace base atoms (by id) with elements EVERYWHERE, also inside the arguments of function symbols, radicands and
    denominators (the defined atoms are rebuilt from their substituted definitions, so x/1, sqrt(1), sin(0) ... simplify)"""
    if not mapping:
        return e
    memo = {} if _memo is None else _memo
    K = CTX.kind

    def atom_el(v):
        r = memo.get(v)
        if r is not None:
            return r
        kd = K[v]
        if v in mapping:
            r = _el(mapping[v])
        elif kd[0] == 'base':
            r = El.a(v)
        elif kd[0] == 'sqrt':
            r = sqrt(deep_substitute(kd[1], mapping, memo))
        elif kd[0] == 'inv':
            r = inv(deep_substitute(kd[1], mapping, memo))
        elif kd[0] == 'fn':
            args = [deep_substitute(a, mapping, memo) for a in kd[2]]
            if kd[1] == 'idiv' and len(args) == 2 and eq(args[1], ONE):
                r = args[0]
            else:
                r = fn(kd[1], *args)
        else:
            r = El.a(v)
        memo[v] = r
        return r
    touched = False
    for v in e.atoms():
        if v in mapping or K[v][0] != 'base':
            touched = True
            break
    if not touched:
        return e
    out = ZERO
    for m, c in e.t.items():
        term = El.c(c)
        for v, k in m:
            x = atom_el(v)
            term = term * (x ** k if k >= 0 else inv(x ** (-k)))
        out = out + term
    return out


def fn(name, *args):
    """application of an uninterpreted function symbol, keyed by the canonical form of its arguments"""
    args = tuple((a.norm() if a.has_defined() else a) for a in map(_el, args))
    if name in ('sin', 'cos') and len(args) == 1:
        s_, c_ = sincos(args[0])
        return s_ if name == 'sin' else c_
    if name == 'tan' and len(args) == 1:
        s_, c_ = sincos(args[0])
        if not c_.zero():
            return s_ * inv(c_)
    if name == 'atan' and len(args) == 1:
        # atan x is the principal angle of the point (1, x): one symbol for both spellings
        name, args = 'atan2', (args[0], ONE)
    k = ('fn', name, tuple(a.key() for a in args))
    if k not in CTX.bykey:
        CTX.bykey[k] = CTX.atom('%s(%s)' % (name, ', '.join(show(a, 6) for a in args)), ('fn', name, args))
    return El.a(CTX.bykey[k])


def iszero(x):
    """zero test: clear negative exponents of defined atoms, renormalise (sound; see DESIGN §5.2)"""
    x = x.norm()
    if x.zero():
        return True
    K = CTX.kind
    mins = {}
    maxs = {}
    for m in x.t:
        for v, e in m:
            k = K[v][0]
            if k == 'inv' and e > 0:
                maxs[v] = max(maxs.get(v, 0), e)
            elif k != 'inv' and e < 0:
                # a negative power of any atom (x / c with c a plain symbol): multiplied away as well
                mins[v] = min(mins.get(v, 0), e)
    if not mins and not maxs:
        return False
    mul = ONE
    for v, e in mins.items():
        k = -e
        if K[v][0] == 'sqrt':
            k += k % 2
        mul = mul.rawmul(El({((v, k),): Fr(1)}))
    for v, e in maxs.items():
        mul = mul.rawmul(El({((v, -e),): Fr(1)}))
    y = x.rawmul(mul).norm()
    if y.zero():
        return True
    # a second round: products may have created new reducible powers
    return False


def _trig_refine(x):
    """Angles that occur with several rational multiples of the same monomial (t and t/2): rewrite the sin/cos atoms of
    the coarser multiples over the finest unit (double/triple-angle formulas).  Returns the rewritten element or None."""
    K = CTX.kind
    groups = {}
    seen = set()
    todo = list(x.atoms())
    allv = []
    while todo:
        v = todo.pop()
        if v in seen:
            continue
        seen.add(v)
        allv.append(v)
        kd = K[v]
        if kd[0] in ('sqrt', 'inv'):
            todo.extend(kd[1].atoms())
    for v in allv:
        kd = K[v]
        if kd[0] == 'fn' and kd[1] in ('sin', 'cos') and len(kd[2]) == 1 and len(kd[2][0].t) == 1:
            (m, c), = kd[2][0].t.items()
            if m and c > 0:
                groups.setdefault(m, {}).setdefault(c, {})[kd[1]] = v
    mapping = {}
    for m, bycoef in groups.items():
        if len(bycoef) < 2:
            continue
        unit = min(bycoef)
        for c, atoms in bycoef.items():
            k = c / unit
            if c == unit or k.denominator != 1 or not (2 <= k <= TRIG_MAXMULT):
                continue
            su, cu = _trig_pair(El({m: unit}))
            s_, c_ = su, cu
            for _ in range(int(k) - 1):
                s_, c_ = s_ * cu + c_ * su, c_ * cu - s_ * su
            if 'sin' in atoms:
                mapping[atoms['sin']] = s_.norm()
            if 'cos' in atoms:
                mapping[atoms['cos']] = c_.norm()
    if not mapping:
        return None
    return deep_substitute(x, mapping)


def eq(a, b):
    d = _el(a) - _el(b)
    if iszero(d):
        return True
    d2 = _trig_refine(d.norm())
    return d2 is not None and iszero(d2)


def residue_has_defined(x):
    return x.norm().has_defined()


# ---------------------------------------------------------------- sign domain
def sign(x, positive=()):
    """+1 / -1 / 0 when the sign of x is determined by: sqrt atoms > 0, atoms listed in `positive` > 0,
    inv[P] has the sign of P when P's sign is known, even powers >= 0 (treated as > 0 under the
    non-degeneracy assumptions).  None when undetermined."""
    x = x.norm() if x.has_defined() else x
    if x.zero():
        return 0
    K = CTX.kind
    pos = set(positive)
    sg = None
    for m, c in x.t.items():
        s = 1 if c > 0 else -1
        for v, e in m:
            if e % 2 == 0:
                continue
            k = K[v]
            if k[0] == 'sqrt' or v in pos:
                continue
            if k[0] == 'inv':
                ps = sign(k[1], positive)
                if ps in (1, -1):
                    s *= ps
                    continue
            return None
        if sg is None:
            sg = s
        elif sg != s:
            return None
    return sg


# ---------------------------------------------------------------- vectors / matrices of El
def vec(name, comps):
    return [El.v('%s.%s' % (name, c)) for c in comps]


def dot(a, b):
    r = ZERO
    for x, y in zip(a, b):
        r = r + x * y
    return r


def cross(a, b):
    return [a[1] * b[2] - a[2] * b[1], a[2] * b[0] - a[0] * b[2], a[0] * b[1] - a[1] * b[0]]


def vscale(a, k):
    return [x * k for x in a]


def vadd(a, b):
    return [x + y for x, y in zip(a, b)]


def vsub(a, b):
    return [x - y for x, y in zip(a, b)]


def matmul(A, B):
    """column-major lists: A[c][r]; (A*B)[c][r] = sum_k A[k][r]*B[c][k]"""
    n = len(A)
    return [[sum((A[k][r] * B[c][k] for k in range(n)), ZERO) for r in range(len(A[0]))] for c in range(len(B))]


def matvec(A, v):
    return [sum((A[c][r] * v[c] for c in range(len(A))), ZERO) for r in range(len(A[0]))]


def transpose(A):
    return [[A[r][c] for r in range(len(A))] for c in range(len(A[0]))]


def det(A):
    """Leibniz expansion"""
    import itertools
    n = len(A)
    r = ZERO
    for perm in itertools.permutations(range(n)):
        sgn = 1
        for i in range(n):
            for j in range(i + 1, n):
                if perm[i] > perm[j]:
                    sgn = -sgn
        t = El.c(sgn)
        for c in range(n):
            t = t * A[c][perm[c]]
        r = r + t
    return r


def minor(A, c, r):
    return [[A[cc][rr] for rr in range(len(A)) if rr != r] for cc in range(len(A)) if cc != c]


def adjugate(A):
    """adj(A)[c][r] = (-1)^(c+r) * det(minor obtained by deleting column r and row c)  (column-major)"""
    n = len(A)
    if n == 1:
        return [[ONE]]
    return [[El.c((-1) ** (c + r)) * det(minor(A, r, c)) for r in range(n)] for c in range(n)]


def identity(n):
    return [[ONE if r == c else ZERO for r in range(n)] for c in range(n)]
