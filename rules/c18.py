"""C18 — approximate-equality and predicate methods test every component."""
import algebra as A
from algebra import El, ZERO, ONE
from core import (Harness, VEC, PNT, MAT, sv, sm, sq, ss, Run, Conv, run_specs, report_dropped, ret_leaves, single_ret, flat, parse_guard, bool_conjunction, conjuncts)
import facts

PROP = 'C18'
TRAITS = {'abs_diff': ('abs_diff_eq', ['e: S'], ['e'], 1), 'relative': ('relative_eq', ['e: S', 'm: S'], ['e', 'm'], 2), 'ulps': ('ulps_eq', ['e: S', 'u: u32'], ['e', 'u'], 2)}


def leafnames(prefix, kind):
    """leaf atom names of a value of the given compound type, in declaration order"""
    k = kind[0]
    if k == 'vec':
        return ['%s.%s' % (prefix, c) for c in 'xyzw'[:kind[1]]]
    if k == 'mat':
        n = kind[1]
        return ['%s.%s.%s' % (prefix, c, r) for c in 'xyzw'[:n] for r in 'xyzw'[:n]]
    if k == 'quat':
        return ['%s.v.x' % prefix, '%s.v.y' % prefix, '%s.v.z' % prefix, '%s.s' % prefix]
    if k == 'angle':
        return ['%s.0' % prefix]
    if k == 'euler':
        return ['%s.%s.0' % (prefix, c) for c in 'xyz']
    if k == 'basis':
        return leafnames(prefix + '.mat', ('mat', kind[1]))
    if k == 'dec':
        return ['%s.scale' % prefix] + leafnames(prefix + '.rot', kind[1]) + leafnames(prefix + '.disp', kind[2])
    raise KeyError(k)


def types():
    t = []
    for n, (T, _) in VEC.items():
        t.append(('v%d' % n, '%s<S>' % T, ('vec', n)))
    for n, (T, _) in PNT.items():
        t.append(('p%d' % n, '%s<S>' % T, ('vec', n)))
    for n, M in MAT.items():
        t.append(('m%d' % n, '%s<S>' % M, ('mat', n)))
    t.append(('q', 'Quaternion<S>', ('quat',)))
    t.append(('rad', 'Rad<S>', ('angle',)))
    t.append(('deg', 'Deg<S>', ('angle',)))
    t.append(('euler_rad', 'Euler<Rad<S>>', ('euler',)))
    t.append(('euler_deg', 'Euler<Deg<S>>', ('euler',)))
    t.append(('b2', 'Basis2<S>', ('basis', 2)))
    t.append(('b3', 'Basis3<S>', ('basis', 3)))
    t.append(('dec_q', 'Decomposed<Vector3<S>, Quaternion<S>>', ('dec', ('quat',), ('vec', 3))))
    t.append(('dec_b3', 'Decomposed<Vector3<S>, Basis3<S>>', ('dec', ('basis', 3), ('vec', 3))))
    t.append(('dec_b2', 'Decomposed<Vector2<S>, Basis2<S>>', ('dec', ('basis', 2), ('vec', 2))))
    return t


def check_ne_pair(run, S, name, spec, kw):
    """x_ne(a, b, tol) returns, on every path, what !x_eq(a, b, tol) returns"""
    from c09 import trees_equal
    from core import paths_agree
    if spec[1] == 'ref':
        run.use_root(S, name)
        return
    refname = name.replace('__ne__', '__nref__', 1)
    for cut in ('', '_mv', '_m', '_p'):
        cand = refname[:len(refname) - len(cut)] if cut and refname.endswith(cut) else (refname if not cut else None)
        if cand and cand in S.roots:
            refname = cand
            break
    rc, rr = run.use_root(S, name), run.use_root(S, refname)
    if rc is None or rr is None:
        run.ob('%s:%s:present' % (PROP, name), False, rule='root-present', expected='root', found='missing')
        return
    ok, msg = trees_equal(S, Conv(S), rc['out'], rr['out'])
    if ok:
        run.ob('%s:%s:negation' % (PROP, name), True, rule='K6 sibling agreement', expected='x_ne(a, b) == !x_eq(a, b)', found='equal', where=rc.get('span'))
    else:
        paths_agree(run, S, '%s:%s:negation' % (PROP, name), rc['out'], rr['out'], 'K6 sibling agreement, path by path: x_ne(a, b) == !x_eq(a, b)', where=rc.get('span'))


def build():
    h = Harness(PROP)
    g = '<S: BaseFloat>'
    for tag, T, kind in types():
        for tr, (meth, params, names, ntol) in TRAITS.items():
            h.root('%s__%s' % (meth, tag), g + '(a: &%s, b: &%s, %s) -> bool' % (T, T, ', '.join(params)), 'a.%s(b, %s)' % (meth, ', '.join(names)), ('approx', tr, kind))
            # "unequal" is the negation: x_ne(a, b) must be !x_eq(a, b), whether it is approx's provided method or an override
            mne = meth[:-2] + 'ne'
            h.root('ne__%s__%s' % (meth, tag), g + '(a: &%s, b: &%s, %s) -> bool' % (T, T, ', '.join(params)), 'a.%s(b, %s)' % (mne, ', '.join(names)), ('ne_pair', 'code'))
            h.root('nref__%s__%s' % (meth, tag), g + '(a: &%s, b: &%s, %s) -> bool' % (T, T, ', '.join(params)), '!a.%s(b, %s)' % (meth, ', '.join(names)), ('ne_pair', 'ref'))
    # predicates
    for tag, T, kind in types():
        if kind[0] in ('vec', 'mat', 'quat') and not tag.startswith('b'):
            call = 'Array::is_finite(a)' if kind[0] == 'vec' else 'a.is_finite()'
            h.root('is_finite__' + tag, g + '(a: &%s) -> bool' % T, call, ('finite', kind))
        if kind[0] in ('mat', 'quat', 'angle'):
            h.root('is_zero__' + tag, g + '(a: &%s) -> bool' % T, 'Zero::is_zero(a)', ('ulps_const', kind, 'zero'))
        if tag.startswith('v'):
            h.root('is_zero__' + tag, g + '(a: &%s) -> bool' % T, 'Zero::is_zero(a)', ('eq_zero', kind))
        if kind[0] == 'mat':
            h.root('is_identity__' + tag, g + '(a: &%s) -> bool' % T, 'a.is_identity()', ('ulps_const', kind, 'identity'))
            h.root('is_diagonal__' + tag, g + '(a: &%s) -> bool' % T, 'a.is_diagonal()', ('diagonal', kind[1]))
            h.root('is_symmetric__' + tag, g + '(a: &%s) -> bool' % T, 'a.is_symmetric()', ('symmetric', kind[1]))
            h.root('is_invertible__' + tag, g + '(a: &%s) -> bool' % T, 'a.is_invertible()', ('invertible', kind[1]))
        if tag.startswith('v') or tag == 'q':
            h.root('is_perpendicular__' + tag, g + '(a: %s, b: %s) -> bool' % (T, T), 'InnerSpace::is_perpendicular(a, b)', ('perpendicular', kind))
    return h


def conj(run, S, name):
    r = run.use_root(S, name)
    if r is None:
        run.ob('%s:%s:present' % (PROP, name), False, rule='root-present', expected='root', found='missing')
        return None
    where = r.get('span')
    if any(l['k'] == 'top' for g_, l in ret_leaves(r['out'])):
        run.ob('%s:%s:analysable' % (PROP, name), False, rule='analysable', expected='finite summary', found=[l['why'] for g_, l in ret_leaves(r['out']) if l['k'] == 'top'][:1], where=where)
        return None
    conds = bool_conjunction(S, r['out'])
    if not run.ob('%s:%s:conjunction' % (PROP, name), conds is not None, rule='K2 comparator coverage', expected='a short-circuit conjunction: true only if every clause holds, false as soon as one fails',
                  found='tree is not a pure conjunction' if conds is None else len(conds), where=where):
        return None
    return r, conds


def atom_name(x):
    """El that is a single input atom -> its name"""
    if isinstance(x, El) and len(x.t) == 1:
        (m, c), = x.t.items()
        if c == 1 and len(m) == 1 and m[0][1] == 1:
            return A.CTX.names[m[0][0]]
    return None


def check_approx_paths(run, S, name, r, tr, kind):
    """The comparator decided path by path (a fast path `if self == other { return true }`, guard clauses, ...): a path that
    returns true must have established, for EVERY component pair, the scalar comparator of this trait with the caller's
    tolerances - or exact equality of the pair, for which every approx relation holds; a path that returns false must have
    established that the comparator fails for some pair; a path that returns a comparator call must have settled all
    the other pairs."""
    where = r.get('span')
    cv = Conv(S)
    key = '%s:%s' % (PROP, name)
    la, lb = leafnames('a0', kind), leafnames('a1', kind)
    want = list(zip(la, lb))
    tol_atoms = {'abs_diff': ['a2'], 'relative': ['a2', 'a3'], 'ulps': ['a2', 'a3']}[tr]

    def clause(tid):
        """(pair, 'cmp' | 'eq', negated) for a guard/return term that is this trait's comparator on a wanted pair with the
        right tolerances, or an exact equality of a wanted pair; None otherwise"""
        g_ = parse_guard(S, cv, tid)
        pa, pb = atom_name(g_.get('a')), atom_name(g_.get('b'))
        pair = (pa, pb) if (pa, pb) in want else ((pb, pa) if (pb, pa) in want else None)
        if pair is None:
            return None
        if g_['kind'] == tr:
            tols = [S.terms[x][1] if S.terms[x][0] == 'v' else S.show(x) for x in g_.get('tols', [])]
            return (pair, 'cmp', g_['neg']) if tols == tol_atoms else None
        if g_['kind'] == 'eq':
            return (pair, 'eq', g_['neg'])
        return None
    ls = ret_leaves(r['out'])
    bad = []
    n_true = 0
    for guards, leaf in ls:
        if leaf['k'] != 'ret':
            bad.append('leaf %s' % leaf['k'])
            continue
        holds, fails = set(), set()
        okg = True
        for kind_, tid, wantv in guards:
            cj = conjuncts(S, tid) if kind_ == 'ite' else [tid]
            if len(cj) > 1:
                # a non-short-circuit conjunction `c1 & c2 & ..` used as one guard
                cs = [clause(x) for x in cj]
                if any(c_ is None for c_ in cs):
                    bad.append('guard %s' % S.show(tid)[:80])
                    okg = False
                    break
                if wantv is True:
                    for pair, what, neg in cs:
                        if not neg:
                            holds.add(pair)
                        elif what == 'cmp':
                            fails.add(pair)
                elif all(what == 'cmp' and not neg for pair, what, neg in cs):
                    fails.add(('one of', tuple(p_ for p_, w_, n_ in cs)))
                continue
            c = clause(tid) if kind_ == 'ite' else None
            if c is None:
                bad.append('guard %s' % S.show(tid)[:80])
                okg = False
                break
            pair, what, neg = c
            truth = (wantv is True) != neg
            if truth:
                holds.add(pair)                   # comparator true, or exactly equal (then every comparator holds)
            elif what == 'cmp':
                fails.add(pair)                   # (an exact inequality says nothing about the approximate relation)
        if not okg:
            continue
        v = leaf['v']
        if v.get('i') == '1':
            n_true += 1
            miss = [p_ for p_ in want if p_ not in holds]
            if miss:
                bad.append('returns true without settling %s' % miss[:3])
        elif v.get('i') == '0':
            if not fails:
                bad.append('returns false although no comparator failed: %s' % [S.show(t)[:50] for k_, t, w in guards][:3])
        elif 't' in v:
            c = clause(v['t'])
            if c is None or c[1] != 'cmp' or c[2]:
                bad.append('returns %s' % S.show(v['t'])[:80])
            else:
                miss = [p_ for p_ in want if p_ not in holds and p_ != c[0]]
                if miss:
                    bad.append('last clause reached without settling %s' % miss[:3])
                n_true += 1
        else:
            bad.append('returns %s' % S.showval(v)[:60])
    run.ob(key + ':coverage', not bad and n_true >= 1, rule='K2 comparator coverage (path by path)', expected='true only where every one of the %d component pairs passed %s_eq (or is exactly equal), false only where one failed' % (len(want), tr),
           found=bad[:3] or 'all %d paths' % len(ls), where=where)


def check_approx(run, S, name, spec, kw):
    tr, kind = spec[1], spec[2]
    r0 = run.use_root(S, name)
    if r0 is not None and not any(l['k'] == 'top' for g_, l in ret_leaves(r0['out'])) and bool_conjunction(S, r0['out']) is None:
        check_approx_paths(run, S, name, r0, tr, kind)
        return
    rc = conj(run, S, name)
    if rc is None:
        return
    r, conds = rc
    where = r.get('span')
    cv = Conv(S)
    key = '%s:%s' % (PROP, name)
    la, lb = leafnames('a0', kind), leafnames('a1', kind)
    want = set(zip(la, lb))
    seen = []
    tol_atoms = {'abs_diff': ['a2'], 'relative': ['a2', 'a3'], 'ulps': ['a2', 'a3']}[tr]
    for tid in conds:
        g_ = parse_guard(S, cv, tid)
        ok = g_['kind'] == tr and not g_['neg']
        pa, pb = (atom_name(g_.get('a')), atom_name(g_.get('b'))) if ok else (None, None)
        tols = [S.terms[x][1] if S.terms[x][0] == 'v' else S.show(x) for x in g_.get('tols', [])]
        good = ok and (pa, pb) in want and tols == tol_atoms
        run.ob('%s:clause:%s' % (key, pa or S.show(tid)[:60]), good, rule='K2 comparator coverage', expected='%s_eq(self.p, other.p, %s) with the caller\'s tolerances unchanged' % (tr, ', '.join(tol_atoms)),
               found=g_['text'][:160], where=where)
        if good:
            seen.append((pa, pb))
    missing = sorted(want - set(seen))
    dup = len(seen) != len(set(seen))
    run.ob(key + ':coverage', not missing and not dup and len(seen) == len(want), rule='K2 comparator coverage', expected='every one of the %d components compared exactly once' % len(want),
           found='missing %s%s' % (missing[:4], ' (duplicates)' if dup else ''), where=where)


def check_finite(run, S, name, spec, kw):
    kind = spec[1]
    rc = conj(run, S, name)
    if rc is None:
        return
    r, conds = rc
    names = leafnames('a0', kind)
    got = []
    for tid in conds:
        t = S.terms[tid]
        if t[0] == 'a' and t[1] == 'is_finite' and S.terms[t[2][0]][0] == 'v':
            got.append(S.terms[t[2][0]][1])
        else:
            got.append('?' + S.show(tid)[:40])
    run.ob('%s:%s:coverage' % (PROP, name), sorted(got) == sorted(names), rule='K2 comparator coverage', expected='is_finite of every component: %s' % names, found=got, where=r.get('span'))


def ulps_clauses(run, S, name, r, conds):
    cv = Conv(S)
    out = []
    tolsets = set()
    for tid in conds:
        g_ = parse_guard(S, cv, tid)
        if g_['kind'] != 'ulps' or g_['neg']:
            run.ob('%s:%s:clause' % (PROP, name), False, rule='K2 comparator coverage', expected='an ulps_eq comparison', found=g_['text'][:120], where=r.get('span'))
            return None
        out.append((g_['a'], g_['b']))
        tolsets.add(tuple(g_.get('tols', [])))
    run.ob('%s:%s:tolerances' % (PROP, name), len(tolsets) <= 1, rule='K2 comparator coverage', expected='the same tolerance operands in every clause', found=len(tolsets), where=r.get('span'))
    return out


def check_ulps_const(run, S, name, spec, kw):
    kind, what = spec[1], spec[2]
    rc = conj(run, S, name)
    if rc is None:
        return
    r, conds = rc
    cl = ulps_clauses(run, S, name, r, conds)
    if cl is None:
        return
    names = leafnames('a0', kind)
    if what == 'identity':
        n = kind[1]
        consts = {'a0.%s.%s' % (c, rr): (ONE if c == rr else ZERO) for c in 'xyzw'[:n] for rr in 'xyzw'[:n]}
    else:
        consts = {nm: ZERO for nm in names}
    got = {}
    for a, b in cl:
        na = atom_name(a)
        if na is not None and na not in got:
            got[na] = b
    ok = sorted(got) == sorted(names) and len(cl) == len(names) and all(A.eq(got[nm], consts[nm]) for nm in names)
    run.ob('%s:%s:coverage' % (PROP, name), ok, rule='K2 comparator coverage', expected='ulps_eq(component, %s component) for every one of the %d components' % (what, len(names)), found=sorted(got)[:20], where=r.get('span'))


def check_eq_zero(run, S, name, spec, kw):
    kind = spec[1]
    rc = conj(run, S, name)
    if rc is None:
        return
    r, conds = rc
    names = leafnames('a0', kind)
    got = sorted(S.show(c) for c in conds)
    want = sorted('eq(%s, 0)' % nm for nm in names)
    run.ob('%s:%s:coverage' % (PROP, name), got == want, rule='K2 comparator coverage', expected=want, found=got, where=r.get('span'))


def check_diagonal(run, S, name, spec, kw):
    n = spec[1]
    rc = conj(run, S, name)
    if rc is None:
        return
    r, conds = rc
    cl = ulps_clauses(run, S, name, r, conds)
    if cl is None:
        return
    want = sorted('a0.%s.%s' % (c, rr) for c in 'xyzw'[:n] for rr in 'xyzw'[:n] if c != rr)
    got = sorted(atom_name(a) or '?' for a, b in cl if A.eq(b, ZERO))
    run.ob('%s:%s:coverage' % (PROP, name), got == want and len(cl) == len(want), rule='K2 comparator coverage', expected='exactly the %d off-diagonal elements compared with 0' % len(want), found=got, where=r.get('span'))


def check_symmetric(run, S, name, spec, kw):
    n = spec[1]
    rc = conj(run, S, name)
    if rc is None:
        return
    r, conds = rc
    cl = ulps_clauses(run, S, name, r, conds)
    if cl is None:
        return
    want = {frozenset(('a0.%s.%s' % (c, rr), 'a0.%s.%s' % (rr, c))) for c in 'xyzw'[:n] for rr in 'xyzw'[:n] if c < rr}
    got = set()
    bad = []
    for a, b in cl:
        na, nb = atom_name(a), atom_name(b)
        pr = frozenset((na, nb))
        if pr in want:
            got.add(pr)
        else:
            bad.append((na, nb))
    run.ob('%s:%s:coverage' % (PROP, name), got == want and not bad, rule='K2 comparator coverage', expected='every element compared with its mirror image (%d unordered pairs)' % len(want),
           found='missing %s, foreign %s' % (sorted(map(sorted, want - got))[:3], bad[:3]), where=r.get('span'))


def single_bool(run, S, name):
    sr = single_ret(run, S, name)
    if sr is None:
        return None
    r, leaf = sr
    v = leaf['v']
    if 't' not in v:
        run.ob('%s:%s:form' % (PROP, name), False, rule='K2', expected='one comparison', found=S.showval(v)[:100], where=r.get('span'))
        return None
    return r, parse_guard(S, Conv(S), v['t'])


def check_invertible(run, S, name, spec, kw):
    n = spec[1]
    rb = single_bool(run, S, name)
    if rb is None:
        return
    r, g_ = rb
    D = A.det(sm('a0', n))
    ok = g_['kind'] == 'ulps' and g_['neg'] and (A.eq(g_['a'], D) or A.eq(g_['a'], -D)) and A.eq(g_['b'], ZERO) and g_.get('default_tols')
    run.ob('%s:%s' % (PROP, name), ok, rule='K2/K3', expected='not ulps_eq(determinant, 0) with default tolerances (determinant = Leibniz expansion)', found=g_['text'][:200], where=r.get('span'))


def check_perpendicular(run, S, name, spec, kw):
    kind = spec[1]
    rb = single_bool(run, S, name)
    if rb is None:
        return
    r, g_ = rb
    a = [El.v(x) for x in leafnames('a0', kind)]
    b = [El.v(x) for x in leafnames('a1', kind)]
    ok = g_['kind'] == 'ulps' and not g_['neg'] and A.eq(g_['a'], A.dot(a, b)) and A.eq(g_['b'], ZERO) and g_.get('default_tols')
    run.ob('%s:%s' % (PROP, name), ok, rule='K2/K3', expected='ulps_eq(dot(a, b), 0) with default tolerances', found=g_['text'][:200], where=r.get('span'))


def run(tier):
    run = Run(PROP, tier, 'other')
    h = build()
    mono_ = h.monomorphise(['f32', 'f64'], bound='<S: BaseFloat>', kinds=None, method_syntax=True, soft=True)   # concrete scalar types, both spellings: what a user of f32 / f64 really gets
    S, inv, meta = facts.extract(PROP, h.src(), inventory=True)
    ap_impls = [i for i in inv.get('impls', []) if i['trait'] in ('approx::abs_diff_eq::AbsDiffEq', 'approx::relative_eq::RelativeEq', 'approx::ulps_eq::UlpsEq')]
    run.notes['overridden_ne'] = sorted('%s for %s: %s' % (i['trait'].split('::')[-1], i['self'], x) for i in ap_impls for x in i['items'] if x.endswith('_ne'))
    report_dropped(run, meta, h)
    run_specs(run, S, h, custom={'ne_pair': check_ne_pair, 'approx': check_approx, 'finite': check_finite, 'ulps_const': check_ulps_const, 'eq_zero': check_eq_zero, 'diagonal': check_diagonal,
                                 'symmetric': check_symmetric, 'invertible': check_invertible, 'perpendicular': check_perpendicular})
    run.floor('approx_impls', len([n for n in run.roots if '_eq__' in n]), 57)
    run.floor('roots', len(run.roots), len(h.specs))
    return run.finish(
        explanation='For each of 19 compound instantiations (vectors, points, matrices, quaternion, Rad, Deg, Euler<Rad>/<Deg>, Basis2/3, Decomposed with the three shipped rotations) and each of abs_diff_eq / relative_eq / ulps_eq, the outcome tree must be a pure short-circuit conjunction whose clauses are exactly the scalar comparator of the same trait applied to (self.p, other.p) for every leaf path p, each once, with the caller\'s tolerance parameters passed through unchanged. is_finite = conjunction of is_finite over every leaf; is_zero = equality with 0 (vectors) or ulps_eq with 0 (matrices, quaternion, angles) of every leaf; is_identity = ulps_eq with the identity entry of every leaf; is_diagonal = exactly the n^2-n off-diagonal leaves against 0; is_symmetric covers every mirror pair; is_invertible = not ulps_eq(Leibniz determinant, 0); is_perpendicular = ulps_eq(dot, 0). Reflexivity and symmetry then follow from the scalar relation.',
        trusted_base=['rustc nightly type checking / trait resolution / MIR construction', 'mirsum abstract interpreter (approx helper structs inlined; scalar comparators uninterpreted)', 'approx: X_ne = not X_eq'],
        not_decided=[],
        exhaustive=True)
