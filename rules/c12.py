"""C12 — points form an affine space over vectors, with exact homogeneous coordinates."""
import algebra as A
from algebra import El, ZERO, ONE
from core import (Harness, VEC, PNT, sv, ss, Run, Conv, run_specs, report_dropped, ret_leaves, cmp_struct, single_ret, forms4, forms2, flat, el_of)
import facts

PROP = 'C12'
OPS = {'add': '+', 'sub': '-', 'mul': '*', 'div': '/', 'rem': '%'}


def opf(op, a, b):
    return {'add': lambda: a + b, 'sub': lambda: a - b, 'mul': lambda: a * b, 'div': lambda: A.fn('idiv', a, b), 'rem': lambda: A.fn('rem', a, b)}[op]()


def build():
    h = Harness(PROP)
    g = '<S: BaseNum>'
    for n, (P, comps) in PNT.items():
        V = VEC[n][0]
        Tp, Tv = '%s<S>' % P, '%s<S>' % V
        p = 'p%d' % n
        a, b, s = sv('a0', n), sv('a1', n), ss('a1')
        forms4(h, 'add_pv__' + p, g, Tp, Tv, Tp, '+', A.vadd(a, b))
        forms4(h, 'sub_pv__' + p, g, Tp, Tv, Tp, '-', A.vsub(a, b))
        forms4(h, 'sub_pp__' + p, g, Tp, Tp, Tv, '-', A.vsub(a, b))
        h.root('add_assign__' + p, g + '(a: &mut %s, b: %s)' % (Tp, Tv), '*a += b', ('post', {'a0': A.vadd(a, b)}))
        h.root('sub_assign__' + p, g + '(a: &mut %s, b: %s)' % (Tp, Tv), '*a -= b', ('post', {'a0': A.vsub(a, b)}))
        for op in ('mul', 'div', 'rem'):
            exp = [opf(op, x, s) for x in a]
            forms2(h, '%s_s__%s' % (op, p), g, Tp, 'S', Tp, OPS[op], exp)
            h.root('%s_s_assign__%s' % (op, p), g + '(a: &mut %s, b: S)' % Tp, '*a %s= b' % OPS[op], ('post', {'a0': exp}))
        for op in OPS:
            exp = [opf(op, x, y) for x, y in zip(a, b)]
            h.root('%s_ew__%s' % (op, p), g + '(a: %s, b: %s) -> %s' % (Tp, Tp, Tp), 'ElementWise::%s_element_wise(a, b)' % op, ('value', exp))
            h.root('%s_assign_ew__%s' % (op, p), g + '(a: &mut %s, b: %s)' % (Tp, Tp), 'ElementWise::%s_assign_element_wise(a, b)' % op, ('post', {'a0': exp}))
            exps = [opf(op, x, s) for x in a]
            h.root('%s_ews__%s' % (op, p), g + '(a: %s, b: S) -> %s' % (Tp, Tp), 'ElementWise::<S>::%s_element_wise(a, b)' % op, ('value', exps))
            h.root('%s_assign_ews__%s' % (op, p), g + '(a: &mut %s, b: S)' % Tp, 'ElementWise::<S>::%s_assign_element_wise(a, b)' % op, ('post', {'a0': exps}))
        h.root('origin__' + p, g + '() -> ' + Tp, '<%s as EuclideanSpace>::origin()' % Tp, ('value', [ZERO] * n))
        h.root('from_vec__' + p, g + '(a: %s) -> %s' % (Tv, Tp), '<%s as EuclideanSpace>::from_vec(a)' % Tp, ('value', a), rule='K1 copy provenance')
        h.root('to_vec__' + p, g + '(a: %s) -> %s' % (Tp, Tv), 'EuclideanSpace::to_vec(a)', ('value', a), rule='K1 copy provenance')
        h.root('dot__' + p, g + '(a: %s, b: %s) -> S' % (Tp, Tv), 'EuclideanSpace::dot(a, b)', ('value', A.dot(a, b)))
        h.root('midpoint__' + p, g + '(a: %s, b: %s) -> %s' % (Tp, Tp, Tp), 'EuclideanSpace::midpoint(a, b)', ('value', [x + A.fn('idiv', y - x, El.c(2)) for x, y in zip(a, b)]))
        h.root('centroid__' + p, '<S: BaseNum + NumCast>(a: &[%s]) -> %s' % (Tp, Tp), '<%s as EuclideanSpace>::centroid(a)' % Tp, ('centroid', n))
        # bounded instances: whatever the implementation (fold, loop, fast path for one point, blocks of 2 / 3 / 4 / 8 points with a
        # remainder loop), n = 1..9 points unroll
        for N in (1, 2, 3, 4, 5, 6, 7, 8, 9):
            h.root('centroid_n%d__%s' % (N, p), '<S: BaseNum + NumCast>(a: [%s; %d]) -> %s' % (Tp, N, Tp), '<%s as EuclideanSpace>::centroid(&a)' % Tp, ('centroid_n', n, N))
        h.root('new__' + p, '<S>(%s) -> %s' % (', '.join('%s: S' % c for c in comps), Tp), '%s::new(%s)' % (P, ', '.join(comps)), ('value', [ss('a%d' % i) for i in range(n)]), rule='K1 copy provenance')
        h.root('from_value__' + p, g + '(a: S) -> ' + Tp, '<%s as Array>::from_value(a)' % Tp, ('value', [ss('a0')] * n))
        h.root('sum__' + p, g + '(a: %s) -> S' % Tp, 'Array::sum(a)', ('value', sum(a, ZERO)))
        pr = ONE
        for x in a:
            pr = pr * x
        h.root('product__' + p, g + '(a: %s) -> S' % Tp, 'Array::product(a)', ('value', pr))
        # affine laws on the composed code
        h.root('law_add_sub__' + p, g + '(a: %s, v: %s) -> %s' % (Tp, Tv, Tv), '(a + v) - a', ('value', b))
        h.root('law_sub_add__' + p, g + '(a: %s, q: %s) -> %s' % (Tp, Tp, Tp), 'a + (q - a)', ('value', b))
        h.root('law_roundtrip__' + p, g + '(a: %s) -> %s' % (Tp, Tp), '<%s as EuclideanSpace>::from_vec(a.to_vec())' % Tp, ('value', a))
    for n, (P, comps) in PNT.items():
        for p_ in ['usize', 'u8', 'u16', 'u32', 'u64', 'isize', 'i8', 'i16', 'i32', 'i64', 'f32', 'f64']:
            for op in ('mul', 'div', 'rem'):
                h.root('left_%s__%s__p%d' % (op, p_, n), '(a: %s, b: %s<%s>) -> %s<%s>' % (p_, P, p_, P, p_), 'a %s b' % OPS[op], ('left', op, n, p_))
    p3 = sv('a0', 3)
    v4 = sv('a0', 4)
    h.root('to_homogeneous', g + '(a: Point3<S>) -> Vector4<S>', 'a.to_homogeneous()', ('value', p3 + [ONE]))
    h.root('from_homogeneous', g + '(a: Vector4<S>) -> Point3<S>', 'Point3::from_homogeneous(a)', ('value', [v4[i] / v4[3] for i in range(3)]), field_div=True)
    k = ss('a1')
    h.root('law_homogeneous', g + '(a: Point3<S>, k: S) -> Point3<S>', 'Point3::from_homogeneous(a.to_homogeneous() * k)', ('value', p3), field_div=True)
    return h


def check_centroid_n(run, S, name, spec, kw):
    """centroid of N concrete points = (sum of the points) / N, component by component"""
    n, N = spec[1], spec[2]
    r = run.use_root(S, name)
    if r is None:
        run.ob('%s:%s:present' % (PROP, name), False, rule='root-present', expected='root', found='missing')
        return
    where = r.get('span')
    key = '%s:%s' % (PROP, name)
    ls = ret_leaves(r['out'])
    bad = [l for g_, l in ls if l['k'] in ('top', 'cut')]
    if bad:
        run.ob(key + ':analysable', False, rule='analysable', expected='finite summary for %d concrete points' % N, found=bad[0].get('why'), where=where)
        return
    rets = [(g_, l) for g_, l in ls if l['k'] == 'ret']
    pans = [(g_, l) for g_, l in ls if l['k'] == 'panic']
    run.ob(key + ':leaves', len(rets) >= 1 and not pans, rule='K5', expected='Return for %d points (the count casts)' % N, found='%d Return, %d Panic' % (len(rets), len(pans)), where=where)
    comps = 'xyz'[:n]
    for li, (g_, leaf) in enumerate(rets):
        cv = Conv(S)
        got = flat(cv.val(leaf['v']))
        sums = [sum((El.v('a0.%d.%s' % (j, c)) for j in range(N)), ZERO) for c in comps]
        exp = [x if N == 1 else A.fn('idiv', x, El.c(N)) for x in sums]
        ok = len(got) == n and all(A.eq(el_of(x), y) for x, y in zip(got, exp))
        run.ob('%s:leaf%d:value' % (key, li), ok, rule='K3', expected='(p0 + ... + p%d) / %d component-wise' % (N - 1, N), found=[A.show(el_of(x)) for x in got][:3], where=where)


def check_centroid(run, S, name, spec, kw):
    n = spec[1]
    r0 = run.use_root(S, name)
    if r0 is not None:
        ls0 = ret_leaves(r0['out'])
        loops = [l for g_, l in ls0 if l['k'] in ('top', 'cut')]
        rets0 = [l for g_, l in ls0 if l['k'] == 'ret']
        nofold = rets0 and not any(e['fn'] == 'core::iter::traits::iterator::Iterator::fold' for l in rets0 for e in l['trace'])
        if loops or nofold:
            # not the fold idiom (an explicit loop over a slice of unknown length cannot be unrolled): the general-n
            # argument does not apply; the bounded instances centroid_n1..9 decide the behaviour for up to nine points
            run.notes.setdefault('centroid_general_n', {})[name] = 'not decided for arbitrary n (no Iterator::fold idiom); decided for n = 1..9'
            run.ob('%s:%s:general-n' % (PROP, name), True, rule='K7 fold pattern (not applicable to this implementation)', expected='fold idiom or bounded instances', found='bounded instances only', where=r0.get('span'), nontrivial=False)
            return
    sr = single_ret(run, S, name, allow_panics=True)
    if sr is None:
        return
    r, leaf = sr
    where = r.get('span')
    key = '%s:%s' % (PROP, name)
    folds = [e for e in leaf['trace'] if e['fn'] == 'core::iter::traits::iterator::Iterator::fold']
    if not run.ob(key + ':fold', len(folds) == 1, rule='K7 fold pattern', expected='exactly one Iterator::fold over the points', found=[e['fn'] for e in leaf['trace']], where=where):
        return
    e = folds[0]
    cv = Conv(S)
    # iterator = slice::iter(points)
    it = S.showval(e['args'][0])
    run.ob(key + ':iter', 'iter(a0)' in it.replace(' ', '') or 'iter(' in it and 'a0' in it, rule='K7 fold pattern', expected='the iterator is points.iter()', found=it[:120], where=where)
    init = flat(cv.val(e['args'][1]))
    if len(init) != n or not all(isinstance(x, El) for x in init):
        # a fold with another accumulator (a running (total, count) pair, say): not the idiom the general-n argument is written
        # for; the bounded instances centroid_n1..9 decide the behaviour for up to nine points
        run.notes.setdefault('centroid_general_n', {})[name] = 'not decided for arbitrary n (fold over a compound accumulator); decided for n = 1..9'
        run.ob('%s:%s:general-n' % (PROP, name), True, rule='K7 fold pattern (not applicable to this implementation)', expected='plain fold idiom or bounded instances', found='bounded instances only', where=where, nontrivial=False)
        return
    run.ob(key + ':init', len(init) == n and all(A.eq(x, ZERO) for x in init), rule='K7 fold pattern', expected='initial accumulator = zero vector', found=[A.show(x) for x in init], where=where)
    lam = e.get('lambda', {})
    if not run.ob(key + ':lambda', 'out' in lam and lam['out']['k'] == 'ret', rule='K7 fold pattern', expected='the folding closure summarises to one Return', found=str(lam)[:200], where=where):
        return
    acc = [El.v('acc.%s' % c) for c in 'xyz'[:n]]
    item = [El.v('item.%s' % c) for c in 'xyz'[:n]]
    got = flat(cv.val(lam['out']['v']))
    ok = len(got) == n and all(A.eq(x, y + z) for x, y, z in zip(got, acc, item))
    run.ob(key + ':step', ok, rule='K7 fold pattern', expected='closure(acc, p) = acc + p.to_vec()', found=[A.show(x) for x in got], where=where)
    # result = from_vec(fold / numcast(len(points)))
    res = flat(cv.val(leaf['v']))
    fold_t = e['ret']
    foldv = [cv.el_proj(fold_t, i) for i in range(n)] if hasattr(cv, 'el_proj') else None
    okr = len(res) == n
    texts = [S.showval(x) for x in leaf['v']['a']]
    import re
    pat_ok = all(re.search(r'proj\(fold\(.*\), %d\) / proj\(variant\(numcast\(len\(a0\), "S/#0"\), 1\), 0\)' % i, t.replace('\n', '')) for i, t in enumerate(texts))
    run.ob(key + ':result', okr and pat_ok, rule='K7 fold pattern', expected='from_vec(total / cast(points.len()))  component-wise', found=texts[:3], where=where)
    # the cast of len must be unwrapped only on success: the other leaves panic
    allk = sorted({l['k'] for g_, l in ret_leaves(r['out'])})
    run.ob(key + ':leaves', allk in (['panic', 'ret'], ['ret']), rule='K5', expected='Return, or a panic only if the length does not cast', found=allk, where=where)


def run(tier):
    import core
    core.DEFAULT_FIELD_DIV = False
    run = Run(PROP, tier, 'proof')
    h = build()
    msyn = h.monomorphise(['i32', 'f32'], bound='<S: BaseNum>', kinds=None, method_syntax='only', soft=True)
    msyn += h.monomorphise(['f32', 'f64'], bound='<S: BaseFloat>', kinds=None, method_syntax='only', soft=True)
    mono = h.monomorphise(['i32', 'u8', 'f32', 'f64'], bound='<S: BaseNum>') if tier == 'thorough' else []
    S, inv, meta = facts.extract(PROP, h.src())
    report_dropped(run, meta, h)
    from c17 import check_left
    run_specs(run, S, h, custom={'centroid': check_centroid, 'centroid_n': check_centroid_n, 'left': check_left})
    run.floor('roots', len(run.roots), len(h.specs))
    if mono:
        run.notes['monomorphic_instantiations'] = {'types': ['i32', 'u8', 'f32', 'f64'], 'roots': len(mono)}
    run.notes['monomorphic_method_syntax_roots'] = len([n_ for n_ in msyn if n_ in run.roots])
    return run.finish(
        explanation='For Point1..3: +Vector, -Vector, Point-Point in all four operand forms, the assignment forms, scalar *,/,% (both receiver forms and assignments), both ElementWise impls, origin, from_vec/to_vec, dot, midpoint = p + (q-p)/2, sum/product, new/from_value, Point3::to_homogeneous/from_homogeneous are summarised from MIR and compared component-wise with the definitions; the affine laws (p+v)-p = v, p+(q-p) = q, from_vec(to_vec p) = p and from_homogeneous(k to_homogeneous(p)) = p are decided on the composed code. centroid: the summary must be from_vec(fold(points.iter(), zero, closure)/cast(len)) with the closure summarised separately as acc + p.to_vec().',
        trusted_base=['rustc nightly type checking / trait resolution / MIR construction', 'mirsum abstract interpreter and models', 'Iterator::fold over a slice iterator is the left fold (not interpreted)', 'rules/algebra.py', 'field semantics of + - * /'],
        not_decided=['integer overflow; rounding'],
        exhaustive=True)
