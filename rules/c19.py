"""C19 — numeric cast of compound values is all-or-nothing and component-faithful."""
import algebra as A
from core import (Harness, VEC, PNT, MAT, Run, Conv, run_specs, report_dropped, ret_leaves, flat)
import facts
from c18 import leafnames

PROP = 'C19'


def build():
    h = Harness(PROP)
    g = '<S: NumCast + Copy, T: NumCast>'
    for n, (T, _) in VEC.items():
        h.root('cast__v%d' % n, g + '(a: &%s<S>) -> Option<%s<T>>' % (T, T), 'a.cast()', ('cast', ('vec', n)))
    for n, (T, _) in PNT.items():
        h.root('cast__p%d' % n, g + '(a: &%s<S>) -> Option<%s<T>>' % (T, T), 'a.cast()', ('cast', ('vec', n)))
    for n, M in MAT.items():
        h.root('cast__m%d' % n, g + '(a: &%s<S>) -> Option<%s<T>>' % (M, M), 'a.cast()', ('cast', ('mat', n)))
    h.root('cast__q', '<S: NumCast + Copy, T: BaseFloat>(a: &Quaternion<S>) -> Option<Quaternion<T>>', 'a.cast()', ('cast', ('quat',)))
    return h


def numcast_of(S, tid):
    """term discr(numcast(atom)) -> atom name"""
    t = S.terms[tid]
    if t[0] == 'a' and t[1] == 'discr':
        u = S.terms[t[2][0]]
        if u[0] == 'a' and u[1] == 'numcast' and S.terms[u[2][0]][0] == 'v':
            return S.terms[u[2][0]][1]
    return None


def payload_of(S, tid):
    """term proj(variant(numcast(atom), 1), 0) -> atom name"""
    t = S.terms[tid]
    if t[0] == 'a' and t[1] == 'proj' and S.terms[t[2][1]] == ['i', '0']:
        u = S.terms[t[2][0]]
        if u[0] == 'a' and u[1] == 'variant' and S.terms[u[2][1]] == ['i', '1']:
            w = S.terms[u[2][0]]
            if w[0] == 'a' and w[1] == 'numcast' and S.terms[w[2][0]][0] == 'v':
                return S.terms[w[2][0]][1]
    return None


def check_cast(run, S, name, spec, kw):
    kind = spec[1]
    r = run.use_root(S, name)
    if r is None:
        run.ob('%s:%s:present' % (PROP, name), False, rule='root-present', expected='root', found='missing')
        return
    where = r.get('span')
    key = '%s:%s' % (PROP, name)
    names = leafnames('a0', kind)
    ls = ret_leaves(r['out'])
    kinds = sorted({l['k'] for g_, l in ls})
    if not run.ob(key + ':total', kinds == ['ret'], rule='K5', expected='only Return leaves (no panic)', found=kinds, where=where):
        return
    somes, nones = [], []
    for guards, leaf in ls:
        gs = []
        ok = True
        for kind_, tid, want in guards:
            nm = numcast_of(S, tid) if kind_ == 'switch' else None
            if nm is None or want not in (0, 1):
                ok = False
                break
            gs.append((nm, want))
        if not ok:
            run.ob(key + ':guards', False, rule='K5 guard pass-set', expected='branches only on the outcome of the scalar cast of a component', found=[S.show(t)[:80] for k_, t, w in guards][:3], where=where)
            return
        (somes if leaf['v'].get('n') == 'Some' else nones).append((gs, leaf))
    if not run.ob(key + ':one-some', len(somes) == 1, rule='K5 guard pass-set', expected='exactly one Some outcome', found=len(somes), where=where):
        return
    gs, leaf = somes[0]
    ok = sorted(nm for nm, w in gs) == sorted(names) and all(w == 1 for nm, w in gs)
    run.ob(key + ':some-guards', ok, rule='K5 guard pass-set', expected='Some only when the scalar cast of every one of the %d components succeeded' % len(names), found=gs, where=where)
    vals = []

    def walk(v):
        if 'a' in v:
            for x in v['a']:
                walk(x)
        else:
            vals.append(v)
    walk(leaf['v']['f'][0])
    got = [payload_of(S, v['t']) if 't' in v else None for v in vals]
    run.ob(key + ':positions', got == names, rule='K1 copy provenance', expected='component i of the result = scalar cast of component i of the source: %s' % names, found=got, where=where)
    # None leaves: a prefix of successes followed by one failure; together they cover every component
    failed = []
    okn = True
    for gs_n, lf in nones:
        if not gs_n or gs_n[-1][1] != 0 or any(w != 1 for nm, w in gs_n[:-1]) or lf['v'].get('n') != 'None':
            okn = False
        else:
            failed.append(gs_n[-1][0])
    run.ob(key + ':none', okn and sorted(failed) == sorted(names), rule='K5 guard pass-set', expected='None exactly when some component fails to cast (one None outcome per component)', found=sorted(failed), where=where)


def run(tier):
    run = Run(PROP, tier, 'other')
    h = build()
    S, inv, meta = facts.extract(PROP, h.src())
    report_dropped(run, meta)
    run_specs(run, S, h, custom={'cast': check_cast})
    run.floor('roots', len(run.roots), 11)
    return run.finish(
        explanation='For the 11 cast bodies (Vector1-4, Point1-3, Matrix2-4, Quaternion), generic in both scalar types: the outcome tree branches only on whether NumCast::from of a source component is Some; there is exactly one Some outcome, reached only when the cast of every component succeeded, whose component i is the payload of the cast of source component i; every other outcome is None and is reached exactly when the first failing component fails (one per component); no path panics. One summary covers all 12 x 12 scalar pairs by parametricity.',
        trusted_base=['rustc nightly type checking / trait resolution / MIR construction', 'mirsum abstract interpreter (NumCast::from of a non-constant is an uninterpreted Option)', 'the scalar cast itself (num_traits) is trusted'],
        not_decided=['behaviour of the scalar cast (num_traits)'],
        exhaustive=True)
