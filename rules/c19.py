"""C19 — numeric cast of compound values is all-or-nothing and component-faithful."""
import re
import algebra as A
from core import (Harness, VEC, PNT, MAT, Run, Conv, run_specs, report_dropped, ret_leaves, flat)
import facts
from c18 import leafnames

PROP = 'C19'


def build():
    h = Harness(PROP)
    g = '<S: NumCast + Copy, T: NumCast>'
    for n, (T, _) in VEC.items():
        h.root('cast__v%d' % n, g + '(a: &%s<S>) -> Option<%s<T>>' % (T, T), 'a.cast()', ('cast', ('vec', n)))
    for n, (T, _) in PNT.items():
        h.root('cast__p%d' % n, g + '(a: &%s<S>) -> Option<%s<T>>' % (T, T), 'a.cast()', ('cast', ('vec', n)))
    for n, M in MAT.items():
        h.root('cast__m%d' % n, g + '(a: &%s<S>) -> Option<%s<T>>' % (M, M), 'a.cast()', ('cast', ('mat', n)))
    h.root('cast__q', '<S: NumCast + Copy, T: BaseFloat>(a: &Quaternion<S>) -> Option<Quaternion<T>>', 'a.cast()', ('cast', ('quat',)))
    # the same calls the way user code at one concrete source type writes them, on a reference and on an owned value: method lookup
    # may reach other code there (an inherent `cast` on `Vector4<f32>`, a by-value `cast(self)` of some other trait in scope)
    h.soft = getattr(h, 'soft', set())
    for s0 in ('f32', 'f64', 'i32'):
        fams = [('v%d' % n, T, ('vec', n)) for n, (T, _) in VEC.items()] + [('p%d' % n, T, ('vec', n)) for n, (T, _) in PNT.items()] + [('m%d' % n, M, ('mat', n)) for n, M in MAT.items()]
        for tag, T, kind in fams:
            for sfx, body in (('_m', 'a.cast()'), ('_mv', '{ let v_ = *a; v_.cast() }')):
                nm = h.root('cast__%s__%s%s' % (tag, s0, sfx), '<T: NumCast>(a: &%s<%s>) -> Option<%s<T>>' % (T, s0, T), body, ('cast', kind))
                h.soft.add(nm)
        for sfx, body in (('_m', 'a.cast()'), ('_mv', '{ let v_ = *a; v_.cast() }')):
            nm = h.root('cast__q__%s%s' % (s0, sfx), '<T: BaseFloat>(a: &Quaternion<%s>) -> Option<Quaternion<T>>' % s0, body, ('cast', ('quat',)))
            h.soft.add(nm)
    return h


# the root's target type parameter: every root is declared `<S: .., T: ..>(a: &X<S>) -> Option<X<T>>` or `<T: ..>(a: &X<f32>) -> ..`


def _is_cast_to_target(S, u):
    """numcast(atom, "T/#1"): the scalar cast of a source component TO THE TARGET TYPE of the compound cast (a cast of the
    same component to any other type - `<f64 as NumCast>::from(x)` used to sniff for NaN - answers a different question)"""
    return (u[0] == 'a' and u[1] == 'numcast' and len(u[2]) == 2 and S.terms[u[2][0]][0] == 'v'
            and S.terms[u[2][1]][0] == 's' and re.match(r'^T/#\d+$', S.terms[u[2][1]][1]) is not None)


def numcast_of(S, tid):
    """term discr(numcast(atom, target)) -> atom name"""
    t = S.terms[tid]
    if t[0] == 'a' and t[1] == 'discr':
        u = S.terms[t[2][0]]
        if _is_cast_to_target(S, u):
            return S.terms[u[2][0]][1]
    return None


def bool_cast_fact(S, tid):
    """boolean term over discr(numcast(atom)): (atom name, True if the term being true means the cast SUCCEEDED)"""
    t = S.terms[tid]
    if t[0] != 'a':
        return None
    if t[1] == 'not' and len(t[2]) == 1:
        f = bool_cast_fact(S, t[2][0])
        return (f[0], not f[1]) if f else None
    if t[1] in ('eq', 'ne') and len(t[2]) == 2:
        for x, c in ((t[2][0], t[2][1]), (t[2][1], t[2][0])):
            nm = numcast_of(S, x)
            if nm is not None and S.terms[c][0] == 'i' and S.terms[c][1] in ('0', '1'):
                is_some = S.terms[c][1] == '1'
                return (nm, is_some if t[1] == 'eq' else not is_some)
    return None


def conj_cast_facts(S, tid):
    """bitand-tree of `cast of component succeeded` facts -> list of component names, else None"""
    t = S.terms[tid]
    if t[0] == 'a' and t[1] == 'bitand' and len(t[2]) == 2:
        l, r = conj_cast_facts(S, t[2][0]), conj_cast_facts(S, t[2][1])
        return l + r if l is not None and r is not None else None
    f = bool_cast_fact(S, tid)
    if f is not None and f[1] is True:
        return [f[0]]
    return None


def payload_of(S, tid):
    """term proj(variant(numcast(atom), 1), 0) -> atom name"""
    t = S.terms[tid]
    if t[0] == 'a' and t[1] == 'proj' and S.terms[t[2][1]] == ['i', '0']:
        u = S.terms[t[2][0]]
        if u[0] == 'a' and u[1] == 'variant' and S.terms[u[2][1]] == ['i', '1']:
            w = S.terms[u[2][0]]
            if _is_cast_to_target(S, w):
                return S.terms[w[2][0]][1]
    return None


def cast_paths(S, o, status=None):
    """walk the outcome tree: every guard must be a switch on discr(numcast(component)); yields (status, leaf) with
    status = {component: True (cast succeeded) / False (cast failed)} as established on the path, or raises ValueError"""
    status = dict(status or {})
    k = o['k']
    if k in ('ret', 'panic', 'top', 'cut'):
        yield status, o
        return
    if k == 'ite':
        # an accumulated flag `ok1 & ok2 & ...`: true means every listed cast succeeded, false that at least one failed
        conj = conj_cast_facts(S, o['c'])
        if conj is not None and len(conj) > 1:
            st2 = dict(status)
            feasible = True
            for nm_ in conj:
                if st2.get(nm_) is False:
                    feasible = False
                st2[nm_] = True
            if feasible:
                yield from cast_paths(S, o['t'], st2)
            st3 = dict(status)
            if not all(st3.get(nm_) is True for nm_ in conj):
                if sum(1 for nm_ in conj if st3.get(nm_) is not True) == 1:
                    st3[[nm_ for nm_ in conj if st3.get(nm_) is not True][0]] = False
                else:
                    st3['#some-failed'] = st3.get('#some-failed', frozenset()) | frozenset(conj)
                yield from cast_paths(S, o['e'], st3)
            return
        # `x.is_none()` / `x.is_some()`: a boolean test of the same discriminant
        f = bool_cast_fact(S, o['c'])
        if f is None:
            raise ValueError('branch on %s' % S.show(o['c'])[:80])
        nm, some_if_true = f
        for sub, val in ((o['t'], some_if_true), (o['e'], not some_if_true)):
            st2 = dict(status)
            if nm in st2 and st2[nm] != val:
                continue
            st2[nm] = val
            yield from cast_paths(S, sub, st2)
        return
    if k != 'switch':
        raise ValueError('branch on %s' % S.show(o['c'])[:80])
    nm = numcast_of(S, o['c'])
    if nm is None:
        raise ValueError('branch on %s' % S.show(o['c'])[:80])
    vals = [int(v) for v, sub in o['arms']]
    for v, sub in o['arms']:
        v = int(v)
        if v not in (0, 1):
            raise ValueError('Option discriminant %d' % v)
        st2 = dict(status)
        if nm in st2 and st2[nm] != (v == 1):
            continue            # contradicts an earlier outcome of the same cast: infeasible
        st2[nm] = (v == 1)
        yield from cast_paths(S, sub, st2)
    if o['other'] is not None:
        rest = [x for x in (0, 1) if x not in vals]
        if len(rest) != 1:
            raise ValueError('otherwise arm of a cast outcome with arms %s' % vals)
        st2 = dict(status)
        if not (nm in st2 and st2[nm] != (rest[0] == 1)):
            st2[nm] = (rest[0] == 1)
            yield from cast_paths(S, o['other'], st2)


def check_cast(run, S, name, spec, kw):
    """all-or-nothing and component-faithful, stated on the outcome tree itself: a Some leaf is reached only on paths
    that established success of EVERY component cast and carries, in position i, the payload of the cast of source
    component i; a None leaf is reached only on paths that established the failure of at least one component cast.
    The tree is a partition of the inputs, so this is `None iff some component fails`.  (Early exit or convert-all-then-match,
    the order of the casts, per-field code or map/closure: all the same to this rule.)"""
    kind = spec[1]
    r = run.use_root(S, name)
    if r is None:
        run.ob('%s:%s:present' % (PROP, name), False, rule='root-present', expected='root', found='missing')
        return
    where = r.get('span')
    key = '%s:%s' % (PROP, name)
    names = leafnames('a0', kind)
    try:
        paths = list(cast_paths(S, r['out']))
    except ValueError as ex:
        run.ob(key + ':guards', False, rule='K5 guard pass-set', expected='branches only on the outcome of the scalar cast of a component', found=str(ex), where=where)
        return
    kinds = sorted({l['k'] for st_, l in paths})
    if not run.ob(key + ':total', kinds == ['ret'], rule='K5', expected='only Return leaves (no panic)', found=kinds, where=where):
        return
    somes = [(st_, l) for st_, l in paths if l['v'].get('n') == 'Some']
    nones = [(st_, l) for st_, l in paths if l['v'].get('n') == 'None']
    run.ob(key + ':option', len(somes) + len(nones) == len(paths), rule='K5', expected='every leaf is Some(..) or None', found=len(paths) - len(somes) - len(nones), where=where)
    if not run.ob(key + ':one-some', len(somes) >= 1, rule='K5 guard pass-set', expected='a Some outcome exists', found=len(somes), where=where):
        return
    bad = [sorted(n_ for n_ in names if st_.get(n_) is not True) for st_, l in somes if any(st_.get(n_) is not True for n_ in names)]
    run.ob(key + ':some-guards', not bad, rule='K5 guard pass-set', expected='Some only when the scalar cast of every one of the %d components succeeded' % len(names), found=bad[:3], where=where)
    for si, (st_, leaf) in enumerate(somes):
        vals = []

        def walk(v):
            if 'a' in v:
                for x in v['a']:
                    walk(x)
            else:
                vals.append(v)
        walk(leaf['v']['f'][0])
        got = [payload_of(S, v['t']) if 't' in v else None for v in vals]
        run.ob(key + ':positions' + ('' if si == 0 else ':%d' % si), got == names, rule='K1 copy provenance', expected='component i of the result = scalar cast of component i of the source: %s' % names, found=got, where=where)
    # None leaves: the path established that some component failed
    badn = [dict(st_) for st_, l in nones if not any(st_.get(n_) is False for n_ in names) and not st_.get('#some-failed')]
    failed = sorted({n_ for st_, l in nones for n_ in names if st_.get(n_) is False} | {n_ for st_, l in nones for n_ in st_.get('#some-failed', ())})
    run.ob(key + ':none', not badn and failed == sorted(names), rule='K5 guard pass-set', expected='None only when some component failed to cast, and a None outcome exists for the failure of each component', found=badn[:2] or failed, where=where)


def run(tier):
    run = Run(PROP, tier, 'other')
    h = build()
    S, inv, meta = facts.extract(PROP, h.src())
    report_dropped(run, meta, h)
    run_specs(run, S, h, custom={'cast': check_cast})
    run.floor('roots', len(run.roots), 11)
    return run.finish(
        explanation='For the 11 cast bodies (Vector1-4, Point1-3, Matrix2-4, Quaternion), generic in both scalar types: the outcome tree branches only on whether NumCast::from of a source component is Some; every Some outcome is reached only on paths that established success of the cast of every component, and its component i is the payload of the cast of source component i; every other outcome is None and is reached only on paths that established the failure of some component (the tree partitions the inputs, hence None iff some component fails); no path panics. One summary covers all 12 x 12 scalar pairs by parametricity.',
        trusted_base=['rustc nightly type checking / trait resolution / MIR construction', 'mirsum abstract interpreter (NumCast::from of a non-constant is an uninterpreted Option)', 'the scalar cast itself (num_traits) is trusted'],
        not_decided=['behaviour of the scalar cast (num_traits)'],
        exhaustive=True)
