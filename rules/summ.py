"""Loading and pretty-printing of mirsum summaries (layer B facts)."""
import json


class Summaries:
    def __init__(self, path):
        d = json.load(open(path))
        self.terms = d['terms']
        self.roots = d['roots']
        self._show = {}

    def term(self, i):
        return self.terms[i]

    def show(self, i, depth=40):
        if i in self._show:
            return self._show[i]
        t = self.terms[i]
        k = t[0]
        if k == 'v':
            s = t[1]
        elif k == 'i':
            s = t[1]
        elif k == 'f':
            s = t[3]
        elif k == 's':
            s = json.dumps(t[1])
        else:
            op, args = t[1], t[2]
            if depth <= 0:
                s = op + '(...)'
            else:
                xs = [self.show(a, depth - 1) for a in args]
                inf = {'add': '+', 'sub': '-', 'mul': '*', 'div': '/', 'rem': '%'}
                if op in inf and len(xs) == 2:
                    s = '(%s %s %s)' % (xs[0], inf[op], xs[1])
                elif op == 'neg':
                    s = '-' + xs[0]
                elif op == 'call':
                    s = '%s(%s)' % (self.terms[args[0]][1].split('::')[-1], ', '.join(xs[2:]))
                else:
                    s = '%s(%s)' % (op, ', '.join(xs))
        self._show[i] = s
        return s

    def span(self, i):
        t = self.terms[i]
        return t[3] if t[0] == 'a' and len(t) > 3 else None

    def showval(self, v):
        if v is None:
            return 'null'
        if 't' in v:
            return self.show(v['t'])
        if 'i' in v:
            return v['i']
        if 's' in v:
            return json.dumps(v['s'])
        if 'u' in v:
            return 'undef'
        if 'fn' in v:
            return 'fn<%s>' % v['fn']
        if 'a' in v:
            return ('closure' if 'closure' in v else '') + '[' + ', '.join(self.showval(x) for x in v['a']) + ']'
        if 'e' in v:
            return '%s(%s)' % (v['n'], ', '.join(self.showval(x) for x in v['f']))
        if 'r' in v:
            r = v['r']
            return '&%s@%s+%s{%s}' % (r['name'] or ('cell%d' % r['cell']), r['ty'], r['off'], self.showval(r['val']))
        return '?' + json.dumps(v)

    def print_out(self, o, ind=1, out=None):
        import sys
        w = (out or sys.stdout).write
        pad = '  ' * ind
        if o is None:
            w(pad + '(no arm)\n')
            return
        k = o['k']
        if k == 'ret':
            w('%sRETURN %s\n' % (pad, self.showval(o['v'])))
            for n, v in o['post'].items():
                w('%s  post %s = %s\n' % (pad, n, self.showval(v)))
            for e in o['trace']:
                w('%s  effect %s(%s) -> t%d\n' % (pad, e['fn'], ', '.join(self.showval(a) for a in e['args']), e['ret']))
                if 'lambda' in e:
                    lam = e['lambda']
                    if 'out' in lam:
                        w('%s    lambda %s:\n' % (pad, lam['callable']))
                        self.print_out(lam['out'], ind + 3, out)
                    else:
                        w('%s    lambda error %s\n' % (pad, lam.get('error')))
        elif k == 'panic':
            w('%sPANIC %s @ %s\n' % (pad, o['why'], o['span']))
        elif k == 'top':
            w('%sTOP %s\n' % (pad, o['why']))
        elif k == 'cut':
            w('%sCUT %s\n' % (pad, o['why']))
        elif k == 'ite':
            w('%sIF %s\n' % (pad, self.show(o['c'])))
            self.print_out(o['t'], ind + 1, out)
            w('%sELSE\n' % pad)
            self.print_out(o['e'], ind + 1, out)
        elif k == 'switch':
            w('%sSWITCH %s\n' % (pad, self.show(o['c'])))
            for val, sub in o['arms']:
                w('%s case %s:\n' % (pad, val))
                self.print_out(sub, ind + 1, out)
            if o['other'] is not None:
                w('%s otherwise:\n' % pad)
                self.print_out(o['other'], ind + 1, out)


def leaves(o, guards=()):
    """Yield (guards, leaf) with guards a tuple of ('ite', term, bool) / ('switch', term, value-or-None)."""
    if o is None:
        return
    k = o['k']
    if k in ('ret', 'panic', 'top', 'cut'):
        yield guards, o
    elif k == 'ite':
        yield from leaves(o['t'], guards + (('ite', o['c'], True),))
        yield from leaves(o['e'], guards + (('ite', o['c'], False),))
    elif k == 'switch':
        for val, sub in o['arms']:
            yield from leaves(sub, guards + (('switch', o['c'], int(val)),))
        if o['other'] is not None:
            yield from leaves(o['other'], guards + (('switch', o['c'], None),))


if __name__ == '__main__':
    import sys
    s = Summaries(sys.argv[1])
    for name, r in s.roots.items():
        if len(sys.argv) > 2 and not any(a in name for a in sys.argv[2:]):
            continue
        print('===', name, r.get('root'), 'steps', r.get('steps'), 'ms', r.get('ms'))
        s.print_out(r['out'])
