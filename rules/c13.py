"""C13 — Rad and Deg convert, normalise and evaluate trigonometry consistently."""
from fractions import Fraction as Fr
import algebra as A
from algebra import El, ZERO, ONE
from core import (Harness, sv, ss, Run, Conv, run_specs, report_dropped, ret_leaves, cmp_struct, single_ret, forms4, forms2, flat, check_fold, check_accumulate, check_value, parse_guard)
import facts
import specs
import angledom as D
from specs import TWO_PI, DEG2RAD, RAD2DEG

PROP = 'C13'
PI50 = Fr('3.14159265358979323846264338327950288419716939937510')
UNITS = {'rad': ('Rad<S>', Fr(TWO_PI), ONE, ONE), 'deg': ('Deg<S>', Fr(360), El.c(DEG2RAD), El.c(RAD2DEG))}
OPS = {'add': '+', 'sub': '-', 'mul': '*', 'div': '/', 'rem': '%'}


def opf(op, a, b):
    return {'add': lambda: a + b, 'sub': lambda: a - b, 'mul': lambda: a * b, 'div': lambda: a / b, 'rem': lambda: A.fn('rem', a, b)}[op]()


def build():
    h = Harness(PROP)
    g = '<S: BaseFloat>'
    gn = '<S: BaseNum>'
    a, b = El.v('a0.0'), El.v('a1.0')
    h.root('deg_from_rad', g + '(a: Rad<S>) -> Deg<S>', 'Deg::from(a)', ('convert', Fr(180) / PI50))
    h.root('rad_from_deg', g + '(a: Deg<S>) -> Rad<S>', 'Rad::from(a)', ('convert', PI50 / Fr(180)))
    for u, (T, F, to_rad, from_rad) in UNITS.items():
        Fel = El.c(F)
        h.root('full_turn__' + u, g + '() -> ' + T, '<%s as Angle>::full_turn()' % T, ('full_turn', u))
        for k in (2, 3, 4, 6):
            h.root('turn_div_%d__%s' % (k, u), g + '() -> ' + T, '<%s as Angle>::turn_div_%d()' % (T, k), ('value', [Fel / k]))
        h.root('zero__' + u, g + '() -> ' + T, '<%s as Zero>::zero()' % T, ('value', [ZERO]))
        h.root('normalize__' + u, g + '(a: %s) -> %s' % (T, T), 'Angle::normalize(a)', ('range', u, 'normalize'))
        h.root('normalize_signed__' + u, g + '(a: %s) -> %s' % (T, T), 'Angle::normalize_signed(a)', ('range', u, 'normalize_signed'))
        h.root('opposite__' + u, g + '(a: %s) -> %s' % (T, T), 'Angle::opposite(a)', ('range', u, 'opposite'))
        h.root('bisect__' + u, g + '(a: %s, b: %s) -> %s' % (T, T, T), 'Angle::bisect(a, b)', ('range', u, 'bisect'))
        t = a * to_rad
        for f in ('sin', 'cos', 'tan'):
            h.root('%s__%s' % (f, u), g + '(a: %s) -> S' % T, 'Angle::%s(a)' % f, ('value', A.fn(f, t)))
        h.root('sin_cos__' + u, g + '(a: %s) -> (S, S)' % T, 'Angle::sin_cos(a)', ('value', [A.fn('sin', t), A.fn('cos', t)]))
        for f, base in (('csc', 'sin'), ('sec', 'cos'), ('cot', 'tan')):
            h.root('%s__%s' % (f, u), g + '(a: %s) -> S' % T, 'Angle::%s(a)' % f, ('value', ONE / A.fn(base, t)))
        x, y = ss('a0'), ss('a1')
        for f in ('asin', 'acos', 'atan'):
            h.root('%s__%s' % (f, u), g + '(x: S) -> ' + T, '<%s as Angle>::%s(x)' % (T, f), ('value', [A.fn(f, x) * from_rad]))
        h.root('atan2__' + u, g + '(y: S, x: S) -> ' + T, '<%s as Angle>::atan2(y, x)' % T, ('value', [A.fn('atan2', x, y) * from_rad]))
        # arithmetic acts on the underlying number
        for op in ('add', 'sub', 'rem'):
            forms4(h, '%s__%s' % (op, u), gn, T, T, T, OPS[op], [opf(op, a, b)])
            h.root('%s_assign__%s' % (op, u), gn + '(a: &mut %s, b: %s)' % (T, T), '*a %s= b' % OPS[op], ('post', {'a0': [opf(op, a, b)]}))
        forms4(h, 'div_aa__' + u, gn, T, T, 'S', '/', A.fn('idiv', a, b), field_div=False)
        s = ss('a1')
        for op in ('mul', 'div'):
            e_ = [A.fn('idiv', a, s)] if op == 'div' else [opf(op, a, s)]
            forms2(h, '%s_s__%s' % (op, u), gn, T, 'S', T, OPS[op], e_, field_div=False)
            h.root('%s_s_assign__%s' % (op, u), gn + '(a: &mut %s, b: S)' % T, '*a %s= b' % OPS[op], ('post', {'a0': e_}), field_div=False)
        h.root('neg__%s__v' % u, g + '(a: %s) -> %s' % (T, T), '-a', ('value', [-a]))
        h.root('neg__%s__r' % u, g + '(a: &%s) -> %s' % (T, T), '-a', ('value', [-a]))
        h.root('sum__%s__v' % u, '<S: BaseFloat, I: Iterator<Item = %s>>(i: I) -> %s' % (T, T), '<%s as Sum<%s>>::sum(i)' % (T, T), ('sum',))
        h.root('sum__%s__r' % u, "<'a, S: 'a + BaseFloat, I: Iterator<Item = &'a %s>>(i: I) -> %s" % (T, T), "<%s as Sum<&'a %s>>::sum(i)" % (T, T), ('sum',))
    return h


def check_convert(run, S, name, spec, kw):
    sr = single_ret(run, S, name)
    if sr is None:
        return
    r, leaf = sr
    cv = Conv(S)
    v = flat(cv.val(leaf['v']))
    where = r.get('span')
    key = '%s:%s' % (PROP, name)
    lin = D.linear(v[0]) if len(v) == 1 else None
    a0 = A.CTX.atom('a0.0')
    ok = lin is not None and lin[0] == 0 and list(lin[1].keys()) == [a0]
    if not run.ob(key + ':form', ok, rule='K3', expected='a single multiplication of the underlying number by a constant', found=[A.show(x) for x in v], where=where):
        return
    K = lin[1][a0]
    want = spec[1]
    rel = abs(K - want) / want
    run.ob(key + ':constant', rel <= Fr(1, 2 ** 52), rule='K13 constant audit', expected='constant within one f64 ulp of %s' % float(want), found='%r (relative error %.3g)' % (float(K), float(rel)), where=where)


def check_full_turn(run, S, name, spec, kw):
    u = spec[1]
    sr = single_ret(run, S, name)
    if sr is None:
        return
    r, leaf = sr
    cv = Conv(S)
    v = flat(cv.val(leaf['v']))
    key = '%s:%s' % (PROP, name)
    lin = D.linear(v[0]) if len(v) == 1 else None
    if u == 'deg':
        ok = lin is not None and not lin[1] and lin[0] == 360
        run.ob(key, ok, rule='K13 constant audit', expected='360', found=[A.show(x) for x in v], where=r.get('span'))
    else:
        ok = lin is not None and not lin[1] and abs(lin[0] - 2 * PI50) / (2 * PI50) <= Fr(1, 2 ** 52)
        run.ob(key, ok, rule='K13 constant audit', expected='2 pi within one f64 ulp', found=[A.show(x) for x in v], where=r.get('span'))


REL4 = ['lt', 'eq', 'gt', 'un']
ITE = {('gt', True): 'gt', ('gt', False): 'le', ('lt', True): 'lt', ('lt', False): 'ge', ('ge', True): 'ge', ('ge', False): 'lt', ('le', True): 'le', ('le', False): 'gt', ('eq', True): 'eq'}


def check_range(run, S, name, spec, kw):
    u, what = spec[1], spec[2]
    T, F, to_rad, from_rad = UNITS[u]
    r = run.use_root(S, name)
    if r is None:
        run.ob('%s:%s:present' % (PROP, name), False, rule='root-present', expected='root', found='missing')
        return
    where = r.get('span')
    cv = Conv(S)
    a, b = El.v('a0.0'), El.v('a1.0')
    ls = ret_leaves(r['out'])
    key0 = '%s:%s' % (PROP, name)
    if any(l['k'] != 'ret' for g_, l in ls):
        run.ob(key0 + ':analysable', False, rule='analysable', expected='only Return leaves', found=[(l['k'], l.get('why')) for g_, l in ls if l['k'] != 'ret'][:2], where=where)
        return
    n_checked = 0
    for li, (guards, leaf) in enumerate(ls):
        env = {}
        skip = False
        for kind, tid, want in guards:
            t = S.terms[tid]
            if kind == 'switch' and t[0] == 'a' and t[1] == 'cmp' and want is not None:
                rel = REL4[want]
                if rel == 'un':
                    skip = True     # unordered comparison: a NaN angle, outside the statement (finite angles)
                    break
                env = D.refine(env, rel, cv.el(t[2][0]), cv.el(t[2][1]), F)
            elif kind == 'ite':
                g_ = parse_guard(S, cv, tid)
                rel = ITE.get((g_['kind'], want != g_['neg']))
                if rel is not None and 'a' in g_:
                    env = D.refine(env, rel, g_['a'], g_['b'], F)
        if skip:
            continue
        if any(iv.empty() for iv in env.values()):
            continue    # infeasible combination of comparison outcomes (interval domain), nothing to show
        n_checked += 1
        v = flat(cv.val(leaf['v']))
        key = '%s:leaf%d' % (key0, li)
        if len(v) != 1 or not isinstance(v[0], El):
            run.ob(key + ':shape', False, rule='K11', expected='an angle', found=str(v)[:100], where=where)
            continue
        val = v[0]
        if what in ('normalize', 'normalize_signed', 'opposite'):
            target = a + (El.c(F / 2) if what == 'opposite' else ZERO)
            ok, d = D.congruent(val, target, F)
            run.ob(key + ':congruence', ok, rule='K11 congruence (x % F = x - kF)', expected='result == %s (mod full turn)' % A.show(target), found='difference reduces to %s' % A.show(d), where=where)
            iv = D.interval_of(val, env, F)
            lo, hi = (Fr(-1, 2), Fr(1, 2)) if what == 'normalize_signed' else (Fr(0), Fr(1))
            run.ob(key + ':range', iv is not None and iv.within(lo, hi), rule='K11 interval (|x % F| < F refined by the branch guards)', expected='result in [%s, %s] full turns' % (lo, hi), found='interval %s' % iv, where=where)
        else:
            ok, d = D.congruent(val * 2, a + b, F)
            run.ob(key + ':congruence', ok, rule='K11 congruence', expected='2*(bisect(a,b) - a) == b - a (mod full turn): equal signed distance to both', found='2*result - a - b reduces to %s' % A.show(d), where=where)
            e = D.reduce_mod(val - a, F)
            iv = D.interval_of(e, env, F)
            if iv is not None:
                import math
                k = math.floor((iv.lo + iv.hi) / 2 + Fr(1, 2))       # whole turns are immaterial (mod full turn)
                iv = D.Iv(iv.lo - k, iv.lo_open, iv.hi - k, iv.hi_open)
            run.ob(key + ':range', iv is not None and iv.within(Fr(-1, 4), Fr(1, 4)), rule='K11 interval', expected='bisect(a,b) - a in [-1/4, 1/4] full turns (mod full turn)', found='offset %s, interval %s' % (A.show(e), iv), where=where)
    run.ob(key0 + ':leaves', n_checked >= 2, rule='K11', expected='at least two feasible ordered leaves analysed', found=n_checked, where=where)


def check_sum(run, S, name, spec, kw):
    acc, item = El.v('acc.0'), El.v('item.0')
    check_accumulate(run, S, name, [ZERO], lambda a, i: [a[0] + i[0]], lambda res: A.eq(res[0], acc + item))


def run(tier):
    run = Run(PROP, tier, 'other')
    h = build()
    mono_ = h.monomorphise(['f32', 'f64'], bound='<S: BaseFloat>', kinds=None, method_syntax=True, soft=True)   # concrete scalar types, both spellings: what a user of f32 / f64 really gets
    S, inv, meta = facts.extract(PROP, h.src())
    report_dropped(run, meta, h)
    run_specs(run, S, h, custom={'convert': check_convert, 'full_turn': check_full_turn, 'range': check_range, 'sum': check_sum})
    run.floor('roots', len(run.roots), len(h.specs))
    return run.finish(
        explanation='Structure decided for Rad and Deg: unit conversion is one multiplication by a constant within one f64 ulp of 180/pi resp. pi/180; full_turn = 2 pi / 360 and turn_div_k = full_turn/k; sin/cos/tan/sin_cos are the function symbols applied to the radian measure, csc/sec/cot their reciprocals, asin/acos/atan/atan2 return the principal inverse converted to the caller\'s unit; +,-,%,*,/ and the assignment forms act on the underlying number; Sum is the left fold from zero with +. normalize / normalize_signed / opposite / bisect are decided in an interval x congruence domain over the outcome tree: each feasible leaf must be congruent to its target modulo a full turn (lemma x % F = x - kF) and lie in the stated interval (|x % F| < F refined by the branch guards); for bisect 2(result - a) == b - a (mod F) and result - a in [-F/4, F/4].',
        trusted_base=['rustc nightly type checking / trait resolution / MIR construction', 'mirsum abstract interpreter (partial_cmp forks; float constant folding in IEEE double)', 'lemma: x % F = x - kF with |x % F| < F', 'trigonometric functions are uninterpreted symbols', 'Iterator::fold is the left fold'],
        not_decided=['unit round trip within 4 machine epsilons (rounding)', 'turn_div_k()*k = full_turn() in floating point', 'accuracy of the platform trigonometric functions', 'range membership at the float level (closed right end exists only through rounding)', 'NaN angles (unordered comparison arms are skipped)'],
        exhaustive=True)
