"""C10 — projections map the view volume onto the clip cube and reject bad parameters."""
import algebra as A
from algebra import El, ZERO, ONE
from core import (path_hyps, Harness, sv, sm, sq, ss, Run, Conv, run_specs, report_dropped, ret_leaves, cmp_struct, single_ret, parse_guard, flat)
import facts
import specs
from specs import TWO_PI, DEG2RAD, HALF

PROP = 'C10'
ALL = frozenset(['lt', 'eq', 'gt', 'un'])
MIRROR = {'lt': 'gt', 'gt': 'lt', 'eq': 'eq', 'un': 'un'}
BASE = {'gt': {'gt'}, 'ge': {'gt', 'eq'}, 'lt': {'lt'}, 'le': {'lt', 'eq'}, 'eq': {'eq'}}


def ortho_table(l, r, b, t, n, f):
    Z, I = ZERO, ONE
    return [[El.c(2) / (r - l), Z, Z, Z], [Z, El.c(2) / (t - b), Z, Z], [Z, Z, El.c(-2) / (f - n), Z],
            [-(r + l) / (r - l), -(t + b) / (t - b), -(f + n) / (f - n), I]]


def frustum_table(l, r, b, t, n, f):
    Z = ZERO
    return [[n * 2 / (r - l), Z, Z, Z], [Z, n * 2 / (t - b), Z, Z], [(r + l) / (r - l), (t + b) / (t - b), -(f + n) / (f - n), -ONE],
            [Z, Z, -(f * n * 2) / (f - n), Z]]


def build():
    h = Harness(PROP)
    g = '<S: BaseFloat>'
    six = '(l: S, r: S, b: S, t: S, n: S, f: S)'
    a = [ss('a%d' % i) for i in range(6)]
    f6 = ['left', 'right', 'bottom', 'top', 'near', 'far']
    s6 = [El.v('a0.' + x) for x in f6]
    h.root('ortho_fn', g + six + ' -> Matrix4<S>', 'ortho(l, r, b, t, n, f)', ('proj', 'ortho', a))
    h.root('ortho_from', g + '(o: Ortho<S>) -> Matrix4<S>', 'Matrix4::from(o)', ('proj', 'ortho', s6))
    h.root('frustum_fn', g + six + ' -> Matrix4<S>', 'frustum(l, r, b, t, n, f)', ('proj', 'frustum', a))
    h.root('frustum_from', g + '(p: Perspective<S>) -> Matrix4<S>', 'Matrix4::from(p)', ('proj', 'frustum', s6))
    h.root('perspective_fn_rad', g + '(fovy: Rad<S>, aspect: S, n: S, f: S) -> Matrix4<S>', 'perspective(fovy, aspect, n, f)', ('proj', 'perspective', [El.v('a0.0'), ss('a1'), ss('a2'), ss('a3')]))
    h.root('perspective_fn_deg', g + '(fovy: Deg<S>, aspect: S, n: S, f: S) -> Matrix4<S>', 'perspective(fovy, aspect, n, f)', ('proj', 'perspective', [El.v('a0.0') * El.c(DEG2RAD), ss('a1'), ss('a2'), ss('a3')]))
    h.root('perspective_from', g + '(p: PerspectiveFov<S>) -> Matrix4<S>', 'Matrix4::from(p)', ('proj', 'perspective', [El.v('a0.fovy.0'), El.v('a0.aspect'), El.v('a0.near'), El.v('a0.far')]))
    h.root('planar_fn_rad', g + '(fovy: Rad<S>, aspect: S, h: S, n: S, f: S) -> Matrix4<S>', 'planar(fovy, aspect, h, n, f)', ('proj', 'planar', [El.v('a0.0'), ss('a1'), ss('a2'), ss('a3'), ss('a4')]))
    h.root('planar_fn_deg', g + '(fovy: Deg<S>, aspect: S, h: S, n: S, f: S) -> Matrix4<S>', 'planar(fovy, aspect, h, n, f)', ('proj', 'planar', [El.v('a0.0') * El.c(DEG2RAD), ss('a1'), ss('a2'), ss('a3'), ss('a4')]))
    h.root('planar_from', g + '(p: PlanarFov<S>) -> Matrix4<S>', 'Matrix4::from(p)', ('proj', 'planar', [El.v('a0.fovy.0'), El.v('a0.aspect'), El.v('a0.height'), El.v('a0.near'), El.v('a0.far')]))
    fov, asp, n, f = El.v('a0.fovy.0'), El.v('a0.aspect'), El.v('a0.near'), El.v('a0.far')
    T = A.fn('tan', fov / 2)
    ymax = n * T
    xmax = ymax * asp
    h.root('to_perspective', g + '(p: &PerspectiveFov<S>) -> Perspective<S>', 'p.to_perspective()', ('value', [-xmax, xmax, -ymax, ymax, n, f]))
    return h


def constraint(S, cv, guard):
    """guard of an outcome tree -> (a, b, allowed relation set, approx?, text) or None"""
    kind, tid, want = guard
    if kind == 'switch':
        t = S.terms[tid]
        if t[0] == 'a' and t[1] == 'cmp' and want is not None:
            return cv.el(t[2][0]), cv.el(t[2][1]), frozenset([['lt', 'eq', 'gt', 'un'][want]]), False, S.show(tid)[:120]
        return None
    g_ = parse_guard(S, cv, tid)
    truth = (want != g_['neg'])
    if g_['kind'] in BASE:
        s = frozenset(BASE[g_['kind']])
        return g_['a'], g_['b'], (s if truth else ALL - s), False, g_['text'][:120]
    if g_['kind'] in ('abs_diff', 'relative', 'ulps'):
        s = frozenset(['eq'])
        return g_['a'], g_['b'], (s if truth else ALL - s), True, g_['text'][:120]
    return None


def match(c, x, y):
    """does constraint c speak about the pair (x, y)?  returns the allowed set oriented as (x ? y)"""
    a, b, allowed = c[0], c[1], c[2]
    if A.eq(a, x) and A.eq(b, y):
        return allowed
    if A.eq(a, y) and A.eq(b, x):
        return frozenset(MIRROR[r] for r in allowed)
    return None


def minmax(name, p, q):
    """El of min/max(p, q) in either argument order"""
    return [A.fn(name, p, q), A.fn(name, q, p)]


def check_proj(run, S, name, spec, kw):
    which, args = spec[1], spec[2]
    r = run.use_root(S, name)
    if r is None:
        run.ob('%s:%s:present' % (PROP, name), False, rule='root-present', expected='root', found='missing')
        return
    where = r.get('span')
    cv = Conv(S)
    ls = ret_leaves(r['out'])
    bad = [l for g_, l in ls if l['k'] == 'top']
    if bad:
        run.ob('%s:%s:analysable' % (PROP, name), False, rule='analysable', expected='finite summary', found=bad[0]['why'], where=where)
        return
    rets = [(g_, l) for g_, l in ls if l['k'] == 'ret']
    key = '%s:%s' % (PROP, name)
    run.ob(key + ':returns', len(rets) >= 1, rule='K5', expected='at least one Return leaf', found=len(rets), where=where)
    PI = El.c(TWO_PI / 2)
    single = []   # (label, x, y, forbidden set)
    either = []   # list of alternatives [(x, y, allowed set)]
    if which == 'ortho':
        l, rr, b, t, n, f = args
        table = ortho_table(l, rr, b, t, n, f)
    elif which == 'frustum':
        l, rr, b, t, n, f = args
        table = frustum_table(l, rr, b, t, n, f)
        single = [('left > right', l, rr, {'gt'}), ('bottom > top', b, t, {'gt'}), ('near > far', n, f, {'gt'})]
    elif which == 'perspective':
        fov, asp, n, f = args
        T = A.fn('tan', fov / 2)
        table = frustum_table(-(asp * n * T), asp * n * T, -(n * T), n * T, n, f)
        single = [('fovy <= 0', fov, ZERO, {'lt', 'eq'}), ('fovy >= pi', fov, PI, {'eq', 'gt'}), ('|aspect| = 0', A.fn('abs', asp), ZERO, {'eq'}),
                  ('near <= 0', n, ZERO, {'lt', 'eq'}), ('far <= 0', f, ZERO, {'lt', 'eq'}), ('far = near', f, n, {'eq'})]
    else:
        fov, asp, hh, n, f = args
        T = A.fn('tan', fov / 2)
        table = None
        fp = -hh / (T * 2)
        single = [('fovy <= -pi', fov, -PI, {'lt', 'eq'}), ('fovy >= pi', fov, PI, {'eq', 'gt'}), ('height < 0', hh, ZERO, {'lt'}),
                  ('|aspect| = 0', A.fn('abs', asp), ZERO, {'eq'}), ('far = near', f, n, {'eq'})]
        either = [[(fp, m, frozenset(['lt'])) for m in minmax('min', f, n)] + [(fp, m, frozenset(['gt'])) for m in minmax('max', f, n)]]
    admitted = []
    for li, (guards, leaf) in enumerate(rets):
        lkey = '%s:ret%d' % (key, li)
        cons = []
        unknown = []
        for g_ in guards:
            c = constraint(S, cv, g_)
            if c is None:
                unknown.append(S.show(g_[1])[:120])
            else:
                cons.append(c)
        run.ob(lkey + ':guards-decoded', not unknown, rule='K5 guard pass-set', expected='every guard on the way to a matrix is a comparison', found=unknown, where=where)
        used = set()
        leaf_allowed = {}
        for label, x, y, forb in single:
            allowed = None
            for ci, c in enumerate(cons):
                m = match(c, x, y)
                if m is not None:
                    allowed = m if allowed is None else (allowed & m)
                    used.add(ci)
            leaf_allowed[label] = ALL if allowed is None else allowed
            ok = allowed is not None and not (allowed & frozenset(forb))
            run.ob('%s:reject:%s' % (lkey, label), ok, rule='K5 guard pass-set: a forbidden relation never reaches a matrix',
                   expected='relations %s excluded on this path' % sorted(forb), found='no guard on this pair' if allowed is None else 'admits %s' % sorted(allowed), where=where)
        admitted.append(leaf_allowed)
        for alts in either:
            hit = False
            for ci, c in enumerate(cons):
                for x, y, al in alts:
                    m = match(c, x, y)
                    if m is not None:
                        used.add(ci)
                        if m <= al:
                            hit = True
            run.ob(lkey + ':reject:focal point between the planes', hit, rule='K5 guard pass-set', expected='focal point < min(near, far) or > max(near, far) on every path to a matrix',
                   found=[c[4] for c in cons][-3:], where=where)
        # (guards that match no documented precondition are special-case splits - a fast path - as long as they reject
        # nothing: that is decided on the panic leaves below, `panic-justified`)
        hyp_ctx = path_hyps(S, guards)
        hyp_ctx.__enter__()
        if which in ('perspective', 'planar'):
            # on the documented domain (perspective: 0 < fovy < pi, planar: |fovy| < pi) cos(fovy/2) never vanishes, and
            # sin(fovy/2) vanishes only where the specified matrix (cot(fovy/2)) does not exist either
            import core as _core
            from fractions import Fraction as _Fr
            half_ = args[0] * El.c(_Fr(1, 2))
            _core.ACTIVE_NONZERO.extend([A.fn('cos', half_), A.fn('sin', half_)])
        M = cv.val(leaf['v'])
        if table is not None:
            cmp_struct(run, S, name, M, table, 'K3 field conformance with the %s entry table' % {'ortho': 'glOrtho', 'frustum': 'glFrustum', 'perspective': 'glFrustum(symmetric window of half-height n tan(fovy/2))'}[which], where=where, tag='ret%d' % li)
        if which == 'ortho':
            l, rr, b, t, n, f = args
            lo = A.matvec(M, [l, b, -n, ONE])
            hi = A.matvec(M, [rr, t, -f, ONE])
            ok = all(A.eq(x, y) for x, y in zip(lo, [-ONE, -ONE, -ONE, ONE])) and all(A.eq(x, y) for x, y in zip(hi, [ONE, ONE, ONE, ONE]))
            run.ob(lkey + ':corners', ok, rule='K4', expected='(l,b,-n) -> (-1,-1,-1) and (r,t,-f) -> (1,1,1)', found='holds' if ok else 'fails', where=where)
        if which in ('frustum', 'perspective'):
            if which == 'frustum':
                l, rr, b, t, n, f = args
            else:
                l, rr, b, t = -(asp * n * T), asp * n * T, -(n * T), n * T
            # near rectangle corners -> z = -1 face, far-plane similar rectangle -> z = +1 face, after division by w = -z
            ok = True
            for (x, y, z, ex, ey, ez) in ((l, b, -n, -1, -1, -1), (rr, t, -n, 1, 1, -1), (l * f / n, b * f / n, -f, -1, -1, 1), (rr * f / n, t * f / n, -f, 1, 1, 1)):
                c = A.matvec(M, [x, y, z, ONE])
                ok = ok and A.eq(c[3], -z) and A.eq(c[0], c[3] * ex) and A.eq(c[1], c[3] * ey) and A.eq(c[2], c[3] * ez)
            run.ob(lkey + ':corners', ok, rule='K4', expected='near rectangle and the similar far rectangle map to the z = -1 / z = +1 faces after division by w = -z', found='holds' if ok else 'fails', where=where)
        if which == 'planar':
            ok1 = A.eq(M[0][0] * (asp * hh / 2), ONE) and A.eq(M[1][1] * (hh / 2), ONE)
            run.ob(lkey + ':window', ok1, rule='K4', expected='the z = 0 window of height h, width aspect*h maps to [-1,1]^2', found=[A.show(M[0][0].norm()), A.show(M[1][1].norm())], where=where)
            zc = lambda z: M[2][2] * z + M[3][2]
            wc = lambda z: M[2][3] * z + M[3][3]
            ok2 = A.eq(zc(-n), -wc(-n)) and A.eq(zc(-f), wc(-f))
            run.ob(lkey + ':depth', ok2, rule='K4', expected='z = -near -> -1 and z = -far -> +1 after division by w', found='holds' if ok2 else 'fails', where=where)
            ok3 = A.eq(M[3][3], ONE) and A.eq(M[2][3] * hh + T * 2, ZERO)      # (multiplied out: also meaningful for tan(fovy/2) = 0)
            run.ob(lkey + ':focal', ok3, rule='K4', expected='w = 1 at z = 0 and w = 0 at distance (h/2) cot(fovy/2) behind the origin', found=[A.show(M[2][3].norm()), A.show(M[3][3].norm())], where=where)
            zero = [M[0][1], M[0][2], M[0][3], M[1][0], M[1][2], M[1][3], M[2][0], M[2][1], M[3][0], M[3][1]]
            ok4 = all(A.eq(x, ZERO) for x in zero)
            run.ob(lkey + ':sparsity', ok4, rule='K4', expected='all other entries zero', found='holds' if ok4 else 'fails', where=where)
        hyp_ctx.__exit__(None, None, None)
    # coverage: every combination of valid relations must reach a matrix on some path (finite enumeration)
    import itertools
    wants = [(label, sorted(ALL - frozenset(forb) - frozenset(['un']))) for label, x, y, forb in single]
    missing = []
    ncombo = 0
    for combo in itertools.product(*[w for _, w in wants]):
        ncombo += 1
        if not any(all(rel in la[label] for (label, _), rel in zip(wants, combo)) for la in admitted):
            missing.append(dict(zip([l_ for l_, _ in wants], combo)))
    if single:
        run.ob(key + ':valid-admitted', not missing, rule='K12 finite enumeration of relation combinations', expected='each of the %d combinations of valid relations reaches a matrix' % ncombo,
               found='rejected: %s' % missing[:3] if missing else 'all admitted', where=where)
        run.notes['relation_combinations_enumerated'] = run.notes.get('relation_combinations_enumerated', 0) + ncombo
    # every panic is justified by a documented precondition violated on its path (no rejection beyond the documented ones)
    for pi, (guards, leaf) in enumerate([(g_, l) for g_, l in ls if l['k'] == 'panic']):
        cons = [c for c in (constraint(S, cv, g_) for g_ in guards) if c is not None]
        allc = cons
        just = False
        for label, x, y, forb in single:
            allowed = None
            for c in cons:
                m = match(c, x, y)
                if m is not None:
                    allowed = m if allowed is None else (allowed & m)       # (`a < b || a == b` failing: two conditions on one pair)
            if allowed is not None and allowed <= (frozenset(forb) | frozenset(['un'])):
                just = True         # the path ESTABLISHED a forbidden relation ('un': a NaN operand never satisfies the required one)
        for alts in either:
            for c in cons:
                for x, y, al in alts:
                    m = match(c, x, y)
                    if m is not None and m and not (m & al):
                        just = True
        run.ob('%s:panic%d:justified' % (key, pi), just, rule='K5 guard pass-set', expected='a rejection only where a documented precondition fails on the path (no precondition beyond the documented ones)',
               found=[c[4] for c in allc][-4:], where=where)
    # every other leaf panics
    others = sorted({l['k'] for g_, l in ls if l['k'] != 'ret'})
    if which != 'ortho':
        run.ob(key + ':panics', others == ['panic'], rule='K5', expected='every rejected parameter set ends in a panic', found=others, where=where)
    else:
        run.ob(key + ':total', others == [], rule='K5', expected='ortho has no precondition', found=others, where=where)


def run(tier):
    run = Run(PROP, tier, 'other')
    specs.selfcheck()
    h = build()
    S, inv, meta = facts.extract(PROP, h.src())
    report_dropped(run, meta)
    run_specs(run, S, h, custom={'proj': check_proj})
    run.floor('roots', len(run.roots), len(h.specs))
    run.assumed.update(A.CTX.assumed)
    return run.finish(
        explanation='Entries: every Return leaf of ortho/frustum/perspective (free functions and From impls, Rad and Deg) is field-equal to the glOrtho / glFrustum tables (perspective = frustum of the symmetric window of half-height n tan(fovy/2), half-width aspect times that) and maps the stated corner points to the cube faces; planar is checked against the characterising equations of the statement (window, depth planes, focal point, sparsity), which determine it uniquely; to_perspective field-wise. Rejection: for every path of the outcome tree that reaches a matrix, the guards are decoded into relation sets over {<,=,>,unordered} per compared pair; each documented forbidden relation must be excluded on every such path, the valid relations must all be admitted, no undocumented precondition may appear, and every other leaf is a Panic. For approximate guards (abs_diff_ne) exclusion of equality uses the lemma abs_diff_eq(x,x).',
        trusted_base=['rustc nightly type checking / trait resolution / MIR construction', 'mirsum abstract interpreter (partial_cmp on the scalar forks into <,=,>,unordered)', 'approx: abs_diff_ne = not abs_diff_eq, abs_diff_eq(x,x) holds', 'rules/algebra.py normal forms; tan as an uninterpreted symbol, cot = 1/tan'],
        not_decided=['whether an approximate guard rejects a valid parameter within an epsilon-neighbourhood of the forbidden value'],
        exhaustive=True)
