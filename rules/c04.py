"""C04 — quaternions obey Hamilton's algebra and unit quaternions act as rotations."""
import algebra as A
from algebra import El, ZERO, ONE
from core import (Harness, sv, sq, ss, Run, forms4, forms2, run_specs, report_dropped)
import facts
import specs

PROP = 'C04'
OPS = {'add': '+', 'sub': '-', 'mul': '*', 'div': '/', 'rem': '%'}


def qv(q):
    """spec quaternion (s,[x,y,z]) -> struct order [[x,y,z], s]"""
    return [list(q[1]), q[0]]


def opf(op, a, b):
    return {'add': lambda: a + b, 'sub': lambda: a - b, 'mul': lambda: a * b, 'div': lambda: a / b, 'rem': lambda: A.fn('rem', a, b)}[op]()


def build():
    h = Harness(PROP)
    g = '<S: BaseFloat>'
    Q, V = 'Quaternion<S>', 'Vector3<S>'
    p, q = sq('a0'), sq('a1')
    v = sv('a1', 3)
    s = ss('a1')
    forms4(h, 'mul_qq', g, Q, Q, Q, '*', qv(specs.qmul(p, q)))
    forms4(h, 'mul_qv', g, Q, V, V, '*', specs.qrot(p, v))
    for op in ('add', 'sub'):
        exp = [[opf(op, x, y) for x, y in zip(p[1], q[1])], opf(op, p[0], q[0])]
        forms4(h, op, g, Q, Q, Q, OPS[op], exp)
        h.root('%s_assign' % op, g + '(a: &mut %s, b: %s)' % (Q, Q), '*a %s= b' % OPS[op], ('post', {'a0': exp}))
    for op in ('mul', 'div', 'rem'):
        exp = [[opf(op, x, s) for x in p[1]], opf(op, p[0], s)]
        forms2(h, '%s_s' % op, g, Q, 'S', Q, OPS[op], exp)
        h.root('%s_s_assign' % op, g + '(a: &mut %s, b: S)' % Q, '*a %s= b' % OPS[op], ('post', {'a0': exp}))
    neg = [[-x for x in p[1]], -p[0]]
    h.root('neg__v', g + '(a: %s) -> %s' % (Q, Q), '-a', ('value', neg))
    h.root('neg__r', g + '(a: &%s) -> %s' % (Q, Q), '-a', ('value', neg))
    h.root('conjugate', g + '(a: %s) -> %s' % (Q, Q), 'a.conjugate()', ('value', qv(specs.qconj(p))))
    h.root('one', g + '() -> ' + Q, '<%s as One>::one()' % Q, ('value', [[ZERO] * 3, ONE]))
    h.root('zero', g + '() -> ' + Q, '<%s as Zero>::zero()' % Q, ('value', [[ZERO] * 3, ZERO]))
    d = p[0] * q[0] + A.dot(p[1], q[1])
    h.root('dot', g + '(a: %s, b: %s) -> S' % (Q, Q), 'InnerSpace::dot(a, b)', ('value', d))
    h.root('magnitude2', g + '(a: %s) -> S' % Q, 'InnerSpace::magnitude2(a)', ('value', specs.qnorm2(p)))
    n2 = specs.qnorm2(p)
    c = specs.qconj(p)
    h.root('invert', g + '(a: &%s) -> %s' % (Q, Q), 'Rotation::invert(a)', ('value', [[x / n2 for x in c[1]], c[0] / n2]))
    h.root('rotate_vector', g + '(a: &%s, b: %s) -> %s' % (Q, V, V), 'Rotation::rotate_vector(a, b)', ('value', specs.qrot(p, v)))
    h.root('rotate_point', g + '(a: &%s, b: Point3<S>) -> Point3<S>' % Q, 'Rotation::rotate_point(a, b)', ('value', specs.qrot(p, v)))
    h.root('lerp', g + '(a: %s, b: %s, t: S) -> %s' % (Q, Q, Q), 'VectorSpace::lerp(a, b, t)',
           ('value', [[x + (y - x) * ss('a2') for x, y in zip(p[1], q[1])], p[0] + (q[0] - p[0]) * ss('a2')]))
    h.root('new', '<S>(w: S, x: S, y: S, z: S) -> Quaternion<S>', 'Quaternion::new(w, x, y, z)', ('value', [[ss('a1'), ss('a2'), ss('a3')], ss('a0')]), rule='K1 copy provenance')
    h.root('from_sv', '<S>(s: S, v: Vector3<S>) -> Quaternion<S>', 'Quaternion::from_sv(s, v)', ('value', [sv('a1', 3), ss('a0')]), rule='K1 copy provenance')
    # scalar on the left (f32 / f64)
    for ty in ('f32', 'f64'):
        Qt = 'Quaternion<%s>' % ty
        sc = ss('a0')
        h.root('scalar_mul__%s__v' % ty, '(a: %s, b: %s) -> %s' % (ty, Qt, Qt), 'a * b', ('value', [[sc * x for x in q[1]], sc * q[0]]))
        h.root('scalar_mul__%s__r' % ty, '(a: %s, b: &%s) -> %s' % (ty, Qt, Qt), 'a * b', ('value', [[sc * x for x in q[1]], sc * q[0]]))
        h.root('scalar_div__%s__v' % ty, '(a: %s, b: %s) -> %s' % (ty, Qt, Qt), 'a / b', ('value', [[sc / x for x in q[1]], sc / q[0]]))
        h.root('scalar_div__%s__r' % ty, '(a: %s, b: &%s) -> %s' % (ty, Qt, Qt), 'a / b', ('value', [[sc / x for x in q[1]], sc / q[0]]))
    # composed statements of the property, checked on the code itself
    h.root('q_times_inverse', g + '(a: %s) -> %s' % (Q, Q), 'a * Rotation::invert(&a)', ('value', [[ZERO] * 3, ONE]))
    h.root('inverse_times_q', g + '(a: %s) -> %s' % (Q, Q), 'Rotation::invert(&a) * a', ('value', [[ZERO] * 3, ONE]))
    return h


def run(tier):
    run = Run(PROP, tier, 'proof')
    specs.selfcheck()
    h = build()
    msyn = h.monomorphise(['f32', 'f64'], bound=None, kinds=None, method_syntax='only', soft=True)
    mono = h.monomorphise(['f32', 'f64'], bound='<S: BaseFloat>') if tier == 'thorough' else []
    S, inv, meta = facts.extract(PROP, h.src())
    report_dropped(run, meta, h)
    run_specs(run, S, h)
    run.floor('roots', len(run.roots), len(h.specs))
    if mono:
        run.notes['monomorphic_instantiations'] = {'types': ['f32', 'f64'], 'roots': len(mono)}
    run.notes['monomorphic_method_syntax_roots'] = len([n_ for n_ in msyn if n_ in run.roots])
    return run.finish(
        explanation='The Hamilton product (generated on the spec side from i^2=j^2=k^2=ijk=-1), the q*v shortcut v + 2 qv x (qv x v + s v), conjugate, one/zero, +,-,neg, scalar *,/,%, dot, magnitude2, Rotation::invert = conj/|q|^2, rotate_vector/rotate_point and the scalar-on-the-left forms are summarised from MIR and compared component-wise with the definitions; q*invert(q) = invert(q)*q = one() is checked on the composed code. Associativity, distributivity, norm multiplicativity, the sandwich identity, length preservation and (pq)v = p(qv) for unit quaternions are consequences verified on the spec side on every run.',
        trusted_base=['rustc nightly type checking / trait resolution / MIR construction', 'mirsum abstract interpreter and scalar-operation models (cast of the literal 2 is exact)', 'rules/algebra.py normal forms', 'rules/specs.py definitions, cross-checked by specs.selfcheck()', 'field semantics of + - * /'],
        not_decided=['floating-point rounding'],
        exhaustive=True)
