"""C05 — Quaternion, Basis3, Matrix3 and Matrix4 describe one and the same rotation."""
import itertools
import algebra as A
from algebra import El, ZERO, ONE
from core import (Harness, sv, sm, sq, ss, Run, Conv, forms4, run_specs, report_dropped, ret_leaves, cmp_struct, flat)
import facts
import specs

PROP = 'C05'


def qmat_unit(name):
    """M(q) under the unit-norm hypothesis on `name` (must be evaluated inside specs.hyps)"""
    return specs.q_matrix(sq(name))


def build():
    h = Harness(PROP)
    g = '<S: BaseFloat>'
    Q, V, M3, M4, B3 = 'Quaternion<S>', 'Vector3<S>', 'Matrix3<S>', 'Matrix4<S>', 'Basis3<S>'
    gn = '<S: BaseNum>'
    h.root('m3_from_q', gn + '(a: %s) -> %s' % (Q, M3), 'Matrix3::from(a)', ('qmat', 3))
    h.root('m4_from_q', gn + '(a: %s) -> %s' % (Q, M4), 'Matrix4::from(a)', ('qmat', 4))
    h.root('b3_from_q', g + '(a: %s) -> %s' % (Q, B3), 'Basis3::from(a)', ('qmat', 3))
    h.root('b3_from_quaternion', g + '(a: &%s) -> %s' % (Q, B3), 'Basis3::from_quaternion(a)', ('qmat', 3))
    b = sm('a0.mat', 3)
    h.root('m3_from_b3', g + '(a: %s) -> %s' % (B3, M3), 'Matrix3::from(a)', ('value', b), rule='K1 copy provenance')
    h.root('b3_as_ref_m3', g + '(a: &%s) -> %s' % (B3, M3), '*AsRef::<Matrix3<S>>::as_ref(a)', ('value', b), rule='K1 copy provenance')
    h.root('q_from_m3', g + '(a: %s) -> %s' % (M3, Q), 'Quaternion::from(a)', ('mat2quat', 'a0'))
    h.root('q_from_b3', g + '(a: %s) -> %s' % (B3, Q), 'Quaternion::from(a)', ('mat2quat', 'a0.mat'))
    b1 = sm('a1.mat', 3)
    forms4(h, 'mul_b3', g, B3, B3, B3, '*', A.matmul(b, b1))
    v = sv('a1', 3)
    h.root('rotate_vector_b3', g + '(a: &%s, b: %s) -> %s' % (B3, V, V), 'Rotation::rotate_vector(a, b)', ('value', A.matvec(b, v)))
    h.root('rotate_point_b3', g + '(a: &%s, b: Point3<S>) -> Point3<S>' % B3, 'Rotation::rotate_point(a, b)', ('value', A.matvec(b, v)))
    h.root('one_b3', g + '() -> ' + B3, '<%s as One>::one()' % B3, ('value', A.identity(3)))
    # statement-level compositions on the code itself: rotating by q, by its matrices, by its basis
    # rotating v by q itself, in both spellings (the formula is C04's; here it is one of the things that must agree)
    qq = sq('a0')
    vv = sv('a1', 3)
    h.root('rot_q', g + '(a: &%s, b: %s) -> %s' % (Q, V, V), 'Rotation::rotate_vector(a, b)', ('value', specs.qrot(qq, vv)))
    h.root('rot_q_mul', g + '(a: %s, b: %s) -> %s' % (Q, V, V), 'a * b', ('value', specs.qrot(qq, vv)))
    h.root('rot_via_m3', g + '(a: %s, b: %s) -> %s' % (Q, V, V), 'Matrix3::from(a) * b', ('rot_unit',))
    h.root('rot_via_b3', g + '(a: %s, b: %s) -> %s' % (Q, V, V), 'Basis3::from(a).rotate_vector(b)', ('rot_unit',))
    h.root('rot_via_m4', g + '(a: %s, b: %s) -> %s' % (Q, V, V), 'Transform::<Point3<S>>::transform_vector(&Matrix4::from(a), b)', ('rot_unit',))
    h.root('compose_m3', g + '(a: %s, b: %s) -> %s' % (Q, Q, M3), 'Matrix3::from(a * b)', ('compose',))
    return h


def check_qmat(run, S, name, spec, kw):
    from core import single_ret
    sr = single_ret(run, S, name)
    if sr is None:
        return
    r, leaf = sr
    cv = Conv(S)
    with specs.hyps(specs.unit_quat_hyp('a0')):
        M = specs.q_matrix(sq('a0'))
        exp = specs.embed4(M) if spec[1] == 4 else M
        cmp_struct(run, S, name, cv.val(leaf['v']), exp, 'K3 conformance with the rotation matrix of q, modulo |q| = 1', where=r.get('span'))


def check_rot_unit(run, S, name, spec, kw):
    from core import single_ret
    sr = single_ret(run, S, name)
    if sr is None:
        return
    r, leaf = sr
    cv = Conv(S)
    with specs.hyps(specs.unit_quat_hyp('a0')):
        exp = specs.qrot(sq('a0'), sv('a1', 3))
        cmp_struct(run, S, name, cv.val(leaf['v']), exp, 'K3: rotation by the converted matrix equals rotation by q, modulo |q| = 1', where=r.get('span'))


def check_compose(run, S, name, spec, kw):
    from core import single_ret
    sr = single_ret(run, S, name)
    if sr is None:
        return
    r, leaf = sr
    cv = Conv(S)
    with specs.hyps(specs.unit_quat_hyp('a0'), specs.unit_quat_hyp('a1')):
        exp = A.matmul(specs.q_matrix(sq('a0')), specs.q_matrix(sq('a1')))
        cmp_struct(run, S, name, cv.val(leaf['v']), exp, 'K3: matrix of p*q = matrix of p times matrix of q, modulo unit norms', where=r.get('span'))


def weak_orderings3():
    """all weak orderings of three items as rank triples (rank 0 = largest)"""
    out = set()
    for ranks in itertools.product(range(3), repeat=3):
        # canonical: ranks used must be contiguous from 0
        used = sorted(set(ranks))
        if used == list(range(len(used))):
            out.add(ranks)
    return sorted(out)


def check_mat2quat(run, S, name, spec, kw):
    prefix = spec[1]
    r = run.use_root(S, name)
    if r is None:
        run.ob('%s:%s:present' % (run.prop, name), False, rule='root-present', expected='root', found='missing')
        return
    where = r.get('span')
    ls = ret_leaves(r['out'])
    if any(l['k'] != 'ret' for g, l in ls):
        run.ob('%s:%s:analysable' % (run.prop, name), False, rule='analysable', expected='only Return leaves', found=[(l['k'], l.get('why')) for g, l in ls if l['k'] != 'ret'][:2], where=where)
        return
    # substitute M(q) for the input matrix
    qn = 'q'
    q = sq(qn)
    comp = {'s': q[0], 'x': q[1][0], 'y': q[1][1], 'z': q[1][2]}
    leafinfo = []
    with specs.hyps(specs.unit_quat_hyp(qn)):
        M = specs.q_matrix(q)
        env = {}
        for ci, c in enumerate('xyz'):
            for ri, rr in enumerate('xyz'):
                env['%s.%s.%s' % (prefix, c, rr)] = M[ci][ri]
        for li, (guards, leaf) in enumerate(ls):
            cv = Conv(S, env)
            val = leaf['v']
            # find the sqrt term in the output (structurally): the pivot output is 0.5*sqrt(arg)
            out = cv.val(val)
            ov, os_ = out[0], out[1]
            outs = {'x': ov[0], 'y': ov[1], 'z': ov[2], 's': os_}
            sig = [a_ for a_ in set().union(*[o.atoms() for o in outs.values()]) if A.CTX.kind[a_][0] == 'sqrt']
            key = '%s:%s:leaf%d' % (run.prop, name, li)
            if len(sig) != 1:
                run.ob(key + ':sqrt', False, rule='K3 Shepperd scheme', expected='exactly one square root per branch', found='%d sqrt atoms' % len(sig), where=where)
                continue
            sa = sig[0]
            rad = A.CTX.kind[sa][1]
            sigma = El.a(sa)
            # which pivot c has  sigma^2 * k^2 = 4 c^2 ?  recover the radicand scaling through the pivot output
            pivot = None
            for cn, cval in comp.items():
                # out_c * 2 sigma' == sqrt-arg  and  == 4 c^2 : test  (2*out_c)^2 == 4 c^2  and out_c is free of sigma^-1
                lhs = (outs[cn] * 2) * (outs[cn] * 2)
                if A.eq(lhs, cval * cval * 4) and all(e > 0 for m in outs[cn].norm().t for v_, e in m if v_ == sa):
                    pivot = cn
                    break
            if not run.ob(key + ':pivot', pivot is not None, rule='K3 Shepperd scheme', expected='sqrt argument == 4c^2 for one pivot component c of q (after substituting M(q), |q| = 1)',
                          found='no component matches; radicand = %s' % A.show(rad), where=where):
                continue
            two_sigma = outs[pivot] * 4          # = 2*sqrt(arg) when out_pivot = sqrt(arg)/2
            ok_all = True
            for dn, dval in comp.items():
                X = outs[dn] * two_sigma
                ok = A.eq(X, comp[pivot] * dval * 4)
                run.ob('%s:%s' % (key, dn), ok, rule='K3 Shepperd scheme: out_d * 2*sqrt(4c^2) == 4 c d  (=> result is q or -q)',
                       expected=A.show(comp[pivot] * dval * 4), found=A.show(X.norm()), where=where)
                ok_all = ok_all and ok
            leafinfo.append((guards, pivot))
    # K12: branch selection over the finite abstract space of orderings
    diag = ['%s.x.x' % prefix, '%s.y.y' % prefix, '%s.z.z' % prefix]
    piv_of_diag = {0: 'x', 1: 'y', 2: 'z'}
    cvp = Conv(S)
    tr = El.v(diag[0]) + El.v(diag[1]) + El.v(diag[2])

    def sign_of(d, ranks, trace_sign):
        """sign of the difference d in the abstract state, or None if d is outside the vocabulary"""
        if A.eq(d, tr):
            return trace_sign
        if A.eq(d, -tr):
            return -trace_sign
        for i in range(3):
            for j in range(3):
                if i != j and A.eq(d, El.v(diag[i]) - El.v(diag[j])):
                    return (ranks[j] > ranks[i]) - (ranks[j] < ranks[i])   # rank 0 = largest
        return None

    def eval_guard(kind, tid, want, ranks, trace_sign):
        """does the guard hold in the abstract state?  `if a OP b` and `match a.partial_cmp(&b)` (0 Less, 1 Equal, 2 Greater,
        3 unordered - impossible for the ordered values the abstract states stand for)"""
        t = S.terms[tid]
        if t[0] != 'a' or len(t[2]) != 2:
            return None
        c = sign_of(cvp.el(t[2][0]) - cvp.el(t[2][1]), ranks, trace_sign)
        if c is None:
            return None
        if kind == 'ite':
            res = {'gt': c > 0, 'ge': c >= 0, 'lt': c < 0, 'le': c <= 0, 'eq': c == 0, 'ne': c != 0}.get(t[1])
            return None if res is None else (res == want)
        if kind == 'switch' and t[1] == 'cmp' and want in (0, 1, 2, 3):
            return {0: c < 0, 1: c == 0, 2: c > 0, 3: False}[want]
        return None
    n_abs = 0
    if leafinfo and len(leafinfo) == len(ls):
        for ranks in weak_orderings3():
            for trace_sign in (1, 0, -1):
                n_abs += 1
                taken = []
                undecided = False
                for guards, pivot in leafinfo:
                    ok = True
                    for kind, tid, want in guards:
                        gv = eval_guard(kind, tid, want, ranks, trace_sign)
                        if gv is None:
                            ok = None
                            break
                        if not gv:
                            ok = False
                            break
                    if ok is None:
                        undecided = True
                        break
                    if ok:
                        taken.append(pivot)
                key = '%s:%s:select:%s:%s' % (run.prop, name, ''.join(map(str, ranks)), {1: 'tr>0', 0: 'tr=0', -1: 'tr<0'}[trace_sign])
                if undecided:
                    run.ob(key, False, rule='K12 finite ordering enumeration', expected='guards are comparisons (if-form or partial_cmp match) of the trace with 0 or of diagonal elements with each other', found='a guard outside that vocabulary', where=where)
                    continue
                if trace_sign >= 0:
                    good = len(taken) == 1 and taken[0] == 's'
                    exp = 'pivot w (scalar part) when the trace is non-negative'
                else:
                    maxd = [piv_of_diag[i] for i in range(3) if ranks[i] == 0]
                    good = len(taken) == 1 and taken[0] in maxd
                    exp = 'a pivot whose diagonal element is maximal (%s) when the trace is negative' % '/'.join(maxd)
                run.ob(key, good, rule='K12 finite ordering enumeration', expected=exp, found='branch pivots taken: %s' % taken, where=where)
    run.notes.setdefault('abstract_orderings_enumerated', 0)
    run.notes['abstract_orderings_enumerated'] += n_abs


def run(tier):
    run = Run(PROP, tier, 'proof')
    specs.selfcheck()
    h = build()
    msyn = h.monomorphise(['f32', 'f64'], bound='<S: BaseFloat>', kinds=None, method_syntax='only', soft=True)
    S, inv, meta = facts.extract(PROP, h.src())
    report_dropped(run, meta, h)
    run_specs(run, S, h, custom={'qmat': check_qmat, 'mat2quat': check_mat2quat, 'rot_unit': check_rot_unit, 'compose': check_compose})
    run.floor('roots', len(run.roots), len(h.specs))
    return run.finish(
        explanation='From<Quaternion> for Matrix3/Matrix4/Basis3 are shown equal, modulo the unit-norm relation, to the rotation matrix of q derived on the spec side from the sandwich product; rotation by the converted Matrix3/Basis3/Matrix4 and matrix(p*q) = matrix(p) matrix(q) are checked on the composed code. For From<Matrix3>/From<Basis3> for Quaternion every Return leaf is analysed after substituting M(q) for the input: its square-root argument must equal 4c^2 for one pivot c and every output d must satisfy out_d * 2 sqrt = 4cd, i.e. the leaf returns q or -q; branch selection is decided by enumerating all 13 weak orderings of the diagonal x 3 trace signs and evaluating the guards of the outcome tree on each (pivot w iff trace >= 0, otherwise a maximal diagonal element). Orthonormality, det = +1 and the homomorphism property are verified on the spec side.',
        trusted_base=['rustc nightly type checking / trait resolution / MIR construction', 'mirsum abstract interpreter and scalar-operation models (sqrt is the real square root, cast(0.5) exact)', 'rules/algebra.py normal forms incl. sqrt atoms', 'rules/specs.py (checked by selfcheck)', 'lemma: sqrt(4c^2) = 2|c|'],
        not_decided=['numerical stability near branch boundaries'],
        exhaustive=True)
