"""C07 — Euler angles mean intrinsic X-Y-Z everywhere and round-trip via quaternions."""
from fractions import Fraction as Fr
import algebra as A
from algebra import El, ZERO, ONE
from core import (Harness, sv, sm, sq, ss, Run, Conv, run_specs, report_dropped, ret_leaves, cmp_struct, single_ret)
import facts
import specs
from specs import HALF, DEG2RAD, TWO_PI

PROP = 'C07'
ANG = {'rad': ('Rad<S>', ONE), 'deg': ('Deg<S>', El.c(DEG2RAD))}


def build():
    h = Harness(PROP)
    g = '<S: BaseFloat>'
    for an, (AT, k) in ANG.items():
        tx, ty, tz = [El.v('a0.%s.0' % c) * k for c in 'xyz']
        (sx, cx), (sy, cy), (sz, cz) = specs.sincos(tx), specs.sincos(ty), specs.sincos(tz)
        R = A.matmul(A.matmul(specs.rot_x(sx, cx), specs.rot_y(sy, cy)), specs.rot_z(sz, cz))
        E = 'Euler<%s>' % AT
        h.root('m3_from_euler__' + an, g + '(a: %s) -> Matrix3<S>' % E, 'Matrix3::from(a)', ('value', R))
        h.root('m4_from_euler__' + an, g + '(a: %s) -> Matrix4<S>' % E, 'Matrix4::from(a)', ('value', specs.embed4(R)))
        h.root('b3_from_euler__' + an, g + '(a: %s) -> Basis3<S>' % E, 'Basis3::from(a)', ('value', R))
        hx, hy, hz = [specs.sincos(t * HALF) for t in (tx, ty, tz)]
        qx = (hx[1], [hx[0], ZERO, ZERO])
        qy = (hy[1], [ZERO, hy[0], ZERO])
        qz = (hz[1], [ZERO, ZERO, hz[0]])
        q = specs.qmul(specs.qmul(qx, qy), qz)
        h.root('q_from_euler__' + an, g + '(a: %s) -> Quaternion<S>' % E, 'Quaternion::from(a)', ('value', [q[1], q[0]]))
        # the statement itself, on the composed code: from_angle_x * from_angle_y * from_angle_z
        h.root('m3_product__' + an, g + '(a: %s) -> Matrix3<S>' % E, 'Matrix3::from_angle_x(a.x) * Matrix3::from_angle_y(a.y) * Matrix3::from_angle_z(a.z)', ('value', R))
        h.root('q_product__' + an, g + '(a: %s) -> Quaternion<S>' % E,
               '<Quaternion<S> as Rotation3>::from_angle_x(a.x) * <Quaternion<S> as Rotation3>::from_angle_y(a.y) * <Quaternion<S> as Rotation3>::from_angle_z(a.z)', ('value', [q[1], q[0]]))
    h.root('euler_new', '<A>(x: A, y: A, z: A) -> Euler<A>', 'Euler::new(x, y, z)', ('value', [ss('a0'), ss('a1'), ss('a2')]), rule='K1 copy provenance')
    h.root('euler_from_q', g + '(a: Quaternion<S>) -> Euler<Rad<S>>', 'Euler::from(a)', ('extract',))
    return h


def fn_args(S, cv, v, fname):
    """the value must be the application fname(args...) (possibly wrapped in a one-field struct)"""
    while 'a' in v and len(v['a']) == 1:
        v = v['a'][0]
    if 't' not in v:
        return None
    t = S.terms[v['t']]
    if t[0] == 'a' and t[1] == fname:
        return [cv.el(x) for x in t[2]]
    return None


def scalar_el(cv, v):
    while 'a' in v and len(v['a']) == 1:
        v = v['a'][0]
    return cv.val(v)


def check_extract(run, S, name, spec, kw):
    """Euler-from-quaternion, decided leaf by leaf whatever the control flow (if-chain, match on partial_cmp, early
    returns): the conditions of a path are read as relations between T = qx qz + qy qw and +-k|q|^2; the path is the
    +lock case iff it established T > k|q|^2, the -lock case iff it established not that and T < -k|q|^2, the exact case
    iff it established neither; the value returned must be the formula of that case."""
    r = run.use_root(S, name)
    if r is None:
        run.ob('%s:%s:present' % (PROP, name), False, rule='root-present', expected='root', found='missing')
        return
    where = r.get('span')
    ls = ret_leaves(r['out'])
    if any(l['k'] != 'ret' for g, l in ls) or not (3 <= len(ls) <= 64):
        run.ob('%s:%s:shape' % (PROP, name), False, rule='K5 outcome shape', expected='Return leaves only (two gimbal-lock cases, one exact)', found=[l['k'] for g, l in ls][:8], where=where)
        return
    run.ob('%s:%s:shape' % (PROP, name), True, rule='K5 outcome shape', expected='Return leaves', found=len(ls), nontrivial=False)
    cv = Conv(S)
    q = sq('a0')
    qw, (qx, qy, qz) = q[0], q[1]
    T = qx * qz + qy * qw
    U = specs.qnorm2(q)
    K499 = Fr(0.499)
    mono = tuple(sorted(((A.CTX.atom('a0.v.x'), 1), (A.CTX.atom('a0.v.z'), 1))))

    def classify(lhs, rhs):
        """lhs - rhs = alpha (T - sigma k U): (sigma, k, alpha > 0) or None"""
        d = lhs - rhs
        alpha = d.t.get(mono)
        if alpha is None or alpha == 0:
            return None
        dn = d * El.c(1 / alpha)
        rest = T - dn                       # should be sigma k U
        kk = rest.t.get(((A.CTX.atom('a0.s'), 2),))
        if kk is None or kk == 0 or not A.eq(rest, U * El.c(kk)):
            return None
        return (1 if kk > 0 else -1), abs(kk), alpha > 0
    FLIP = {'lt': 'gt', 'gt': 'lt', 'le': 'ge', 'ge': 'le', 'eq': 'eq', 'un': 'un'}
    NEG = {'gt': ('le', 'un'), 'ge': ('lt', 'un'), 'lt': ('ge', 'un'), 'le': ('gt', 'un')}

    def relation(kind, tid, want):
        """(sigma, k, set of possible relations between T and sigma k U established by this guard) or None"""
        t = S.terms[tid]
        if t[0] != 'a' or len(t[2]) != 2:
            return None
        c = classify(cv.el(t[2][0]), cv.el(t[2][1]))
        if c is None:
            return None
        sigma, kk, same = c
        if kind == 'switch' and t[1] == 'cmp' and want in (0, 1, 2, 3):
            rels = ({0: 'lt', 1: 'eq', 2: 'gt', 3: 'un'}[want],)
        elif kind == 'ite' and t[1] in NEG:
            rels = (t[1],) if want else NEG[t[1]]
        else:
            return None
        if not same:
            rels = tuple(FLIP[x] for x in rels)
        return sigma, kk, set(rels)
    kinds = {}
    for li, (guards, leaf) in enumerate(ls):
        val = leaf['v']['a']
        x, y, z = val[0], val[1], val[2]
        key = '%s:%s:leaf%d' % (PROP, name, li)
        rels = [relation(kind, tid, want) for kind, tid, want in guards]
        if any(g is None for g in rels):
            run.ob(key + ':guards', False, rule='K5 guard pass-set', expected='guards compare qx*qz + qy*qw with +-k*|q|^2', found=[S.show(tid)[:120] for kind, tid, want in guards], where=where)
            continue
        for sigma, kk, rs in rels:
            run.ob(key + ':threshold', abs(kk - K499) < Fr(1, 10**9), rule='K13 constant audit', expected='lock threshold k = 0.499 (|sin y| = 2k = 0.998)', found=float(kk), where=where)
        # what the path established about  T > kU  and  T < -kU
        pos = neg = None
        for sigma, kk, rs in rels:
            if sigma > 0:
                pos = True if rs == {'gt'} else (False if not (rs & {'gt', 'ge'}) else pos)
            else:
                neg = True if rs == {'lt'} else (False if not (rs & {'lt', 'le'}) else neg)
        if pos and neg:
            continue                # T > k|q|^2 >= 0 >= -k|q|^2 > T: infeasible
        # k|q|^2 >= 0, so each strict relation refutes the other one whether or not the path tested it (the two pole tests may
        # come in either order)
        if neg is True and pos is None:
            pos = False
        if pos is True and neg is None:
            neg = False
        # class of the value
        try:
            xe, ye = scalar_el(cv, x), scalar_el(cv, y)
        except Exception:
            xe = ye = None
        is_lock = isinstance(xe, El) and isinstance(ye, El) and A.eq(xe, ZERO) and ye.norm().is_const()
        if is_lock:
            sign = 1 if ye.norm().const() > 0 else -1
            expected_here = (pos is True) if sign > 0 else (pos is False and neg is True)
            run.ob(key + ':lock-guards', expected_here, rule='K5 guard pass-set', expected='the %slock values only where T %s k|q|^2 was established%s' % ('+' if sign > 0 else '-', '>' if sign > 0 else '< -', '' if sign > 0 else ' (and T > k|q|^2 refuted)'),
                   found='T > k|q|^2: %s, T < -k|q|^2: %s' % (pos, neg), where=where)
            kinds['pos' if sign > 0 else 'neg'] = li
            run.ob(key + ':y', A.eq(ye, El.c(TWO_PI / 4 * sign)), rule='K3 + K13', expected='y = %s full_turn/4' % ('+' if sign > 0 else '-'), found=ye, where=where)
            try:
                ze = scalar_el(cv, z)
            except Exception:
                ze = None
            zexp = A.fn('atan2', qx, qw) * (2 * sign)
            run.ob(key + ':z', ze is not None and A.eq(ze, zexp), rule='K3 (exact gimbal lock: x + z resp. x - z is all that is determined; with x = 0, z = +-2 atan2(qx, qw))',
                   expected='z = %s2 atan2(qx, qw)' % ('' if sign > 0 else '-'), found=S.showval(z)[:160], where=where)
        else:
            kinds['exact'] = li
            run.ob(key + ':guards', pos is False and neg is False, rule='K5 guard pass-set', expected='exact values only where neither lock test holds', found='T > k|q|^2: %s, T < -k|q|^2: %s' % (pos, neg), where=where)
            with specs.hyps(specs.unit_quat_hyp('a0')):
                M = specs.q_matrix(q)
                ya = fn_args(S, cv, y, 'asin')
                xa = fn_args(S, cv, x, 'atan2')
                za = fn_args(S, cv, z, 'atan2')
                run.ob(key + ':y', ya is not None and A.eq(ya[0], M[2][0]), rule='K3 + K11 (asin in [-pi/2, pi/2])', expected='y = asin(m[2][0]) = asin(%s)' % A.show(M[2][0].norm()), found=S.showval(y)[:200], where=where)
                run.ob(key + ':x', xa is not None and A.eq(xa[0], -M[2][1]) and A.eq(xa[1], M[2][2]), rule='K3 + K11 (atan2 in [-pi, pi])', expected='x = atan2(-m[2][1], m[2][2])', found=S.showval(x)[:300], where=where)
                run.ob(key + ':z', za is not None and A.eq(za[0], -M[1][0]) and A.eq(za[1], M[0][0]), rule='K3 + K11 (atan2 in [-pi, pi])', expected='z = atan2(-m[1][0], m[0][0])', found=S.showval(z)[:300], where=where)
    run.ob('%s:%s:leafkinds' % (PROP, name), sorted(kinds) == ['exact', 'neg', 'pos'], rule='K5 outcome shape', expected='one exact leaf, one +lock leaf, one -lock leaf', found=sorted(kinds), where=where)


def spec_selfcheck():
    # the Euler matrix entries used by the extraction rule: m20 = sin y, -m21 = sin x cos y, m22 = cos x cos y, -m10 = cos y sin z, m00 = cos y cos z
    sx, cx, sy, cy, sz, cz = [El.v(n) for n in ('sx', 'cx', 'sy', 'cy', 'sz', 'cz')]
    R = A.matmul(A.matmul(specs.rot_x(sx, cx), specs.rot_y(sy, cy)), specs.rot_z(sz, cz))
    assert A.eq(R[2][0], sy) and A.eq(-R[2][1], sx * cy) and A.eq(R[2][2], cx * cy)
    assert A.eq(-R[1][0], cy * sz) and A.eq(R[0][0], cy * cz)
    # Q_x Q_y Q_z maps to the Euler matrix under the half-angle substitution
    hx, kx, hy, ky, hz, kz = [El.v(n) for n in ('hsx', 'hcx', 'hsy', 'hcy', 'hsz', 'hcz')]
    q = specs.qmul(specs.qmul((kx, [hx, ZERO, ZERO]), (ky, [ZERO, hy, ZERO])), (kz, [ZERO, ZERO, hz]))
    with specs.hyps(('hsx', 2, ONE - kx * kx), ('hsy', 2, ONE - ky * ky), ('hsz', 2, ONE - kz * kz)):
        M = specs.q_matrix(q)
        R2 = A.matmul(A.matmul(specs.rot_x(hx * kx * 2, kx * kx - hx * hx), specs.rot_y(hy * ky * 2, ky * ky - hy * hy)), specs.rot_z(hz * kz * 2, kz * kz - hz * hz))
        assert all(A.eq(M[c][r], R2[c][r]) for c in range(3) for r in range(3))


def run(tier):
    run = Run(PROP, tier, 'other')
    specs.selfcheck()
    spec_selfcheck()
    h = build()
    mono_ = h.monomorphise(['f32', 'f64'], bound='<S: BaseFloat>', kinds=None, method_syntax=True, soft=True)   # concrete scalar types, both spellings: what a user of f32 / f64 really gets
    S, inv, meta = facts.extract(PROP, h.src())
    report_dropped(run, meta, h)
    run_specs(run, S, h, custom={'extract': check_extract})
    run.floor('roots', len(run.roots), len(h.specs))
    return run.finish(
        explanation='Construction (Rad and Deg): Matrix3, Matrix4, Basis3 from Euler equal R_x(x) R_y(y) R_z(z) computed from the elementary tables (exact polynomial identity in the six sin/cos symbols), Quaternion from Euler equals Q_x Q_y Q_z in half-angle symbols, and the composed code from_angle_x*from_angle_y*from_angle_z equals the same. Extraction: the outcome tree must have exactly two gimbal-lock leaves guarded by qx*qz + qy*qw compared with +-k|q|^2, k = 0.499, reporting x = 0 and y = +-full_turn/4, and one exact leaf with y = asin(m20), x = atan2(-m21, m22), z = atan2(-m10, m00) for the rotation matrix m of q (modulo |q| = 1), which by the construction table are sin y, sin x cos y, cos x cos y, cos y sin z, cos y cos z - hence exact rebuilding and the documented ranges from the ranges of asin / atan2.',
        trusted_base=['rustc nightly type checking / trait resolution / MIR construction', 'mirsum abstract interpreter; trigonometric functions as symbols', 'range lemmas: asin in [-pi/2, pi/2], atan2 in [-pi, pi]', 'rules/algebra.py, rules/specs.py (selfcheck)'],
        not_decided=['the 0.13 matrix-element bound inside the gimbal-lock cone (numerical; the lock-leaf formula z = +-2 atan2(qx, qw) itself is checked)'],
        exhaustive=True)
