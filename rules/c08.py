"""C08 — transforms compose, invert and convert to matrices consistently."""
import algebra as A
from algebra import El, ZERO, ONE
from core import (check_option_inverse, eq_tests, Harness, sv, sm, sq, ss, Run, Conv, run_specs, report_dropped, ret_leaves, cmp_struct, single_ret, parse_guard, is_zero_test, flat, path_hyps)
import facts
import specs

PROP = 'C08'


class Rot:
    """spec-side description of one shipped rotation type as a field of Decomposed"""

    def __init__(self, kind):
        self.kind = kind
        self.dim = 2 if kind == 'b2' else 3
        self.ty = {'q': 'Quaternion<S>', 'b3': 'Basis3<S>', 'b2': 'Basis2<S>'}[kind]
        self.vec = 'Vector%d<S>' % self.dim
        self.pnt = 'Point%d<S>' % self.dim
        self.dec = 'Decomposed<%s, %s>' % (self.vec, self.ty)

    def sym(self, name):
        if self.kind == 'q':
            return sq(name)
        return sm(name + '.mat', self.dim)

    def act(self, R, v):
        return specs.qrot(R, v) if self.kind == 'q' else A.matvec(R, v)

    def mul(self, R1, R2):
        return specs.qmul(R1, R2) if self.kind == 'q' else A.matmul(R1, R2)

    def inv(self, R):
        if self.kind == 'q':
            n2 = specs.qnorm2(R)
            c = specs.qconj(R)
            return (c[0] / n2, [x / n2 for x in c[1]])
        D = A.det(R)
        adj = A.adjugate(R)
        return [[adj[c][r] / D for r in range(self.dim)] for c in range(self.dim)]

    def one(self):
        return (ONE, [ZERO] * 3) if self.kind == 'q' else A.identity(self.dim)

    def struct(self, R):
        return [list(R[1]), R[0]] if self.kind == 'q' else R

    def matrix(self, R):
        return specs.q_matrix(R) if self.kind == 'q' else R

    def unit_hyps(self, name):
        return [specs.unit_quat_hyp(name)] if self.kind == 'q' else []

    def det(self, R):
        return None if self.kind == 'q' else A.det(R)


def dec_sym(rot, name):
    return El.v(name + '.scale'), rot.sym(name + '.rot'), sv(name + '.disp', rot.dim)


def dec_struct(rot, s, R, d):
    return [s, rot.struct(R), d]


def build():
    h = Harness(PROP)
    g = '<S: BaseFloat>'
    for kind in ('q', 'b3', 'b2'):
        rot = Rot(kind)
        D, V, P = rot.dec, rot.vec, rot.pnt
        s1, R1, d1 = dec_sym(rot, 'a0')
        s2, R2, d2 = dec_sym(rot, 'a1')
        v = sv('a1', rot.dim)
        T = 'Transform::<%s>' % P
        h.root('one__' + kind, g + '() -> ' + D, '<%s as One>::one()' % D, ('value', dec_struct(rot, ONE, rot.one(), [ZERO] * rot.dim)))
        h.root('transform_vector__' + kind, g + '(a: &%s, v: %s) -> %s' % (D, V, V), T + '::transform_vector(a, v)', ('value', rot.act(R1, A.vscale(v, s1))))
        h.root('transform_point__' + kind, g + '(a: &%s, p: %s) -> %s' % (D, P, P), T + '::transform_point(a, p)', ('value', A.vadd(rot.act(R1, A.vscale(v, s1)), d1)))
        cc = dec_struct(rot, s1 * s2, rot.mul(R1, R2), A.vadd(rot.act(R1, A.vscale(d2, s1)), d1))
        h.root('concat__' + kind, g + '(a: &%s, b: &%s) -> %s' % (D, D, D), T + '::concat(a, b)', ('value', cc))
        h.root('mul__' + kind, g + '(a: %s, b: %s) -> %s' % (D, D, D), 'a * b', ('value', cc))
        h.root('concat_self__' + kind, g + '(a: &mut %s, b: &%s)' % (D, D), T + '::concat_self(a, b)', ('post', {'a0': cc}))
        h.root('inverse_transform__' + kind, g + '(a: &%s) -> Option<%s>' % (D, D), T + '::inverse_transform(a)', ('inverse', kind))
        h.root('inverse_transform_vector__' + kind, g + '(a: &%s, v: %s) -> Option<%s>' % (D, V, V), T + '::inverse_transform_vector(a, v)', ('inverse_vec', kind))
        M = 'Matrix4<S>' if rot.dim == 3 else 'Matrix3<S>'
        h.root('to_matrix__' + kind, g + '(a: %s) -> %s' % (D, M), '%s::from(a)' % M[:7], ('to_matrix', kind))
        # conversion commutes with applying and composing (checked on the composed code, unit rotations)
        h.root('matrix_apply_point__' + kind, g + '(a: %s, p: %s) -> %s' % (D, P, P), T + '::transform_point(&%s::from(a), p)' % M[:7], ('commute_point', kind))
        h.root('matrix_apply_vector__' + kind, g + '(a: %s, v: %s) -> %s' % (D, V, V), T + '::transform_vector(&%s::from(a), v)' % M[:7], ('commute_vector', kind))
        h.root('matrix_of_concat__' + kind, g + '(a: %s, b: %s) -> %s' % (D, D, M), '%s::from(%s::concat(&a, &b))' % (M[:7], T), ('commute_concat', kind, 'lhs'))
        h.root('concat_of_matrices__' + kind, g + '(a: %s, b: %s) -> %s' % (D, D, M), '%s::from(a) * %s::from(b)' % (M[:7], M[:7]), ('commute_concat', kind, 'rhs'))
        # concat applied to a point = s applied to (t applied to p)
        h.root('concat_apply__' + kind, g + '(a: %s, b: %s, p: %s) -> %s' % (D, D, P, P), T + '::transform_point(&%s::concat(&a, &b), p)' % T, ('concat_apply', kind, 'lhs'))
        h.root('apply_apply__' + kind, g + '(a: %s, b: %s, p: %s) -> %s' % (D, D, P, P), T + '::transform_point(&a, %s::transform_point(&b, p))' % T, ('concat_apply', kind, 'rhs'))
    # matrices as transforms: trait defaults (the overridden methods are covered by C01 / C02)
    for tag, M, n, P, V, hom in (('m3_2d', 'Matrix3<S>', 3, 'Point2<S>', 'Vector2<S>', 2), ('m3_3d', 'Matrix3<S>', 3, 'Point3<S>', 'Vector3<S>', 3), ('m4', 'Matrix4<S>', 4, 'Point3<S>', 'Vector3<S>', 3)):
        T = 'Transform::<%s>' % P
        a, b = sm('a0', n), sm('a1', n)
        h.root('one__' + tag, g + '() -> ' + M, '<%s as One>::one()' % M, ('value', A.identity(n)))
        h.root('concat_self__' + tag, g + '(a: &mut %s, b: &%s)' % (M, M), T + '::concat_self(a, b)', ('post', {'a0': A.matmul(a, b)}))
        h.root('inverse_transform_vector__' + tag, g + '(a: &%s, v: %s) -> Option<%s>' % (M, V, V), T + '::inverse_transform_vector(a, v)', ('mat_inverse_vec', n, hom))
        # the overridden methods themselves (the same specification C01 / C02 use): a point is extended by 1, a direction by 0;
        # Matrix4 dehomogenises the image of a point, Matrix3 acting on the plane keeps the first two rows (its w row is
        # (0, 0, 1) for every transform built from scales, rotations and displacements), Matrix3 acting on space is linear
        pv = sv('a1', hom)
        tp, tv = mat_apply(tag, a, pv)
        h.root('transform_point__' + tag, g + '(a: &%s, p: %s) -> %s' % (M, P, P), T + '::transform_point(a, p)', ('value', tp))
        h.root('transform_vector__' + tag, g + '(a: &%s, v: %s) -> %s' % (M, V, V), T + '::transform_vector(a, v)', ('value', tv))
        h.root('concat__' + tag, g + '(a: &%s, b: &%s) -> %s' % (M, M, M), T + '::concat(a, b)', ('value', A.matmul(a, b)))
        h.root('inverse_transform__' + tag, g + '(a: &%s) -> Option<%s>' % (M, M), T + '::inverse_transform(a)', ('mat_inverse', n))
    return h


def mat_apply(tag, a, pv):
    """(image of the point pv, image of the direction pv) under the matrix a acting as the Transform `tag`"""
    n, hom = len(a), len(pv)
    if n == hom:
        img = A.matvec(a, pv)
        return img, img
    hp = A.matvec(a, pv + [ONE])
    tp = [hp[i] / hp[n - 1] for i in range(hom)] if tag == 'm4' else hp[:hom]
    return tp, A.matvec(a, pv + [ZERO])[:hom]


def mat_selfcheck():
    """Oracle side of `concat(s, t)(p) = s(t(p))` for the matrix transforms, given transform_point / concat as specified
    above: for points an identity of rational functions for Matrix4 (dehomogenising commutes with the product) and for Matrix3 on
    space (linear); for Matrix3 on the plane, and for directions under Matrix4, it holds for matrices with last row
    (0, .., 0, 1) - every transform built from scales, rotations and displacements - and the product of two such matrices
    is again one."""
    def affine(m):
        n = len(m)
        return [[(ONE if c == n - 1 else ZERO) if r == n - 1 else m[c][r] for r in range(n)] for c in range(n)]
    for tag, n, hom in (('m3_2d', 3, 2), ('m3_3d', 3, 3), ('m4', 4, 3)):
        a, b, pv = sm('a0', n), sm('a1', n), sv('a2', hom)
        fa, fb = (a, b) if n == hom else (affine(a), affine(b))
        if n != hom:
            ab = A.matmul(fa, fb)
            assert all(A.eq(ab[c][n - 1], ONE if c == n - 1 else ZERO) for c in range(n)), 'affine matrices closed under product'
        # points: general matrices for Matrix4 (projective), affine ones for Matrix3 on the plane
        pa, pb = (a, b) if tag != 'm3_2d' else (fa, fb)
        lhs = mat_apply(tag, A.matmul(pa, pb), pv)[0]
        rhs = mat_apply(tag, pa, mat_apply(tag, pb, pv)[0])[0]
        assert all(A.eq(x, y) for x, y in zip(lhs, rhs)), 'concat(s,t)(p) = s(t(p)) [%s]' % tag
        # directions: the w component of the image is dropped, so the identity needs the last row (0, .., 0, 1)
        lhs = mat_apply(tag, A.matmul(fa, fb), pv)[1]
        rhs = mat_apply(tag, fa, mat_apply(tag, fb, pv)[1])[1]
        assert all(A.eq(x, y) for x, y in zip(lhs, rhs)), 'concat(s,t)(v) = s(t(v)) [%s]' % tag
    return True


def check_mat_inverse(run, S, name, spec, kw):
    check_option_inverse(run, S, name, spec[1])


def option_leaves(run, S, name, where, r):
    ls = ret_leaves(r['out'])
    tops = [l for g_, l in ls if l['k'] == 'top']
    if tops:
        run.ob('%s:%s:analysable' % (PROP, name), False, rule='analysable', expected='finite summary', found=tops[0]['why'], where=where)
        return None
    return ls


def check_inverse(run, S, name, spec, kw):
    kind = spec[1]
    vecform = spec[0] == 'inverse_vec'
    rot = Rot(kind)
    r = run.use_root(S, name)
    if r is None:
        run.ob('%s:%s:present' % (PROP, name), False, rule='root-present', expected='root', found='missing')
        return
    where = r.get('span')
    ls = option_leaves(run, S, name, where, r)
    if ls is None:
        return
    cv = Conv(S)
    s, R, d = dec_sym(rot, 'a0')
    v = sv('a1', rot.dim)
    det = rot.det(R)
    seen = {'None': 0, 'Some': 0, 'panic': 0}
    for li, (guards, leaf) in enumerate(ls):
        key = '%s:%s:leaf%d' % (PROP, name, li)
        gs = [(parse_guard(S, cv, tid), want) for k_, tid, want in guards]
        zero_g = [(g_, w) for g_, w in gs if is_zero_test(g_, s)]
        det_g = [(g_, w) for g_, w in gs if det is not None and g_['kind'] == 'eq' and (A.eq(g_['a'] - g_['b'], det) or A.eq(g_['a'] - g_['b'], -det))]
        # the same test written as a match on partial_cmp
        for k_, tid, want in guards:
            if k_ == 'switch' and det is not None:
                for d_, truth_, text_ in eq_tests(S, cv, k_, tid, want):
                    if A.eq(d_, det) or A.eq(d_, -det):
                        g2 = {'kind': 'eq', 'neg': False, 'text': text_, 'a': d_, 'b': ZERO}
                        det_g.append((g2, truth_))
                        gs = [(g_, w) for g_, w in gs if g_.get('text') != S.show(tid)]
        others = [g_ for g_, w in gs if not any(g_ is z for z, _ in zero_g) and not any(g_ is z for z, _ in det_g)]
        # any further guard is a special-case split inside the rotation / vector code: it cannot excuse a wrong
        # None/Some classification (that is decided on the scale test alone, below), and the leaf's value is compared
        # under the exact equalities of its own path
        scale_is_zero = None
        for g_, w in zero_g:
            scale_is_zero = (w != g_['neg'])
            if g_['kind'] != 'eq':
                run.ob(key + ':tolerance', g_.get('default_tols', False), rule='K5: tolerance operands are the scalar type defaults', expected='default_epsilon()/default_max_*() of the scalar type',
                       found=g_['text'][:200], where=where)
        if leaf['k'] == 'panic':
            seen['panic'] += 1
            dz = any((w != g_['neg']) for g_, w in det_g)
            run.ob(key + ':panic', dz, rule='K5 guard pass-set', expected='a panic only for a singular rotation matrix (det == 0)', found=[g_['text'][:100] for g_, w in gs], where=where)
            continue
        val = leaf['v']
        if val.get('n') == 'None':
            seen['None'] += 1
            run.ob(key + ':none', scale_is_zero is True, rule='K5 guard pass-set', expected='None only when scale tests equal to zero', found=[g_['text'][:100] for g_, w in gs], where=where)
        elif val.get('n') == 'Some':
            seen['Some'] += 1
            run.ob(key + ':some', scale_is_zero is False, rule='K5 guard pass-set', expected='Some(..) only when scale tests different from zero', found=[g_['text'][:100] for g_, w in gs], where=where)
            # A Basis2/Basis3 value is a rotation: its matrix is parametrised as a general rotation (M(q), |q| = 1, resp.
            # [[c,s],[-s,c]]), so that the matrix inverse and the transpose are the same answer - the property does not say how
            # the rotation is inverted.  (Quaternion rotations are kept general: conj/|q|^2 is exact for every q.)
            Rp, cvp, rels = R, cv, []
            if rot.kind != 'q':
                comps = 'xyz'[:rot.dim]
                if rot.dim == 3:
                    Rp = specs.q_matrix(sq('r'))
                    rels = [specs.unit_quat_hyp('r')]
                else:
                    sn_, cs_ = specs.sincos(El.v('r.t'))
                    Rp = specs.rot2(sn_, cs_)
            with specs.hyps(*rels):
                if rot.kind != 'q':
                    env = {'a0.rot.mat.%s.%s' % (comps[c], comps[r_]): Rp[c][r_] for c in range(rot.dim) for r_ in range(rot.dim)}
                    cvp = Conv(S, env=env)
                Ri = rot.inv(Rp)
                got = cvp.val(val['f'][0])
                if vecform:
                    exp = rot.act(Ri, [x / s for x in v])
                else:
                    exp = dec_struct(rot, ONE / s, Ri, [-(x) / s for x in rot.act(Ri, d)])
                with path_hyps(S, guards if others else ()):
                    cmp_struct(run, S, name, got, exp, 'K3: inverse = (1/s, R^-1, -R^-1(d)/s)' if not vecform else 'K3: R^-1(v/s)', where=where, tag='leaf%d' % li)
        else:
            run.ob(key + ':kind', False, rule='K5', expected='Option', found=S.showval(val)[:100], where=where)
    run.ob('%s:%s:cases' % (PROP, name), seen['None'] >= 1 and seen['Some'] >= 1, rule='K5 guard pass-set', expected='both a None and a Some outcome exist', found=seen, where=where)


def check_mat_inverse_vec(run, S, name, spec, kw):
    n, hom = spec[1], spec[2]
    v = sv('a1', hom)

    def expect(Minv, mapping):
        vv = v + [ZERO] * (n - hom)
        return A.matvec(Minv, vv)[:hom]
    check_option_inverse(run, S, name, n, expect_fn=expect, rule='K5', tag='ret')


def check_to_matrix(run, S, name, spec, kw):
    kind = spec[1]
    rot = Rot(kind)
    sr = single_ret(run, S, name)
    if sr is None:
        return
    r, leaf = sr
    cv = Conv(S)
    s, R, d = dec_sym(rot, 'a0')
    n = rot.dim
    with specs.hyps(*rot.unit_hyps('a0.rot')):
        Rm = rot.matrix(R)
        exp = [[Rm[c][r_] * s for r_ in range(n)] + [ZERO] for c in range(n)] + [list(d) + [ONE]]
        cmp_struct(run, S, name, cv.val(leaf['v']), exp, 'K3: matrix of a Decomposed = [s R | d; 0 1]', where=r.get('span'))


def check_commute(run, S, name, spec, kw):
    kind = spec[1]
    rot = Rot(kind)
    sr = single_ret(run, S, name)
    if sr is None:
        return
    r, leaf = sr
    cv = Conv(S)
    s, R, d = dec_sym(rot, 'a0')
    v = sv('a1', rot.dim)
    with specs.hyps(*rot.unit_hyps('a0.rot')):
        if spec[0] == 'commute_point':
            exp = A.vadd(rot.act(R, A.vscale(v, s)), d)
        else:
            exp = rot.act(R, A.vscale(v, s))
        cmp_struct(run, S, name, cv.val(leaf['v']), exp, 'K3: applying the converted matrix = applying the transform (unit rotation)', where=r.get('span'))


PAIRS = {}


def check_pair(run, S, name, spec, kw):
    """two compositions that must agree (modulo unit rotations).  Each side is compared with the closed form both must
    have - [s R | d] products resp. nested applications built from the spec tables - so that a side which special-cases
    some inputs is judged path by path on its own, not against every path of the other side."""
    kind, side = spec[1], spec[2]
    rot = Rot(kind)
    sr = single_ret(run, S, name)
    if sr is None:
        return
    r, leaf = sr
    cv = Conv(S)
    n = rot.dim
    s1, R1, d1 = dec_sym(rot, 'a0')
    s2, R2, d2 = dec_sym(rot, 'a1')
    with specs.hyps(*(rot.unit_hyps('a0.rot') + rot.unit_hyps('a1.rot'))):
        def mat(s_, R_, d_):
            Rm = rot.matrix(R_)
            return [[Rm[c][r_] * s_ for r_ in range(n)] + [ZERO] for c in range(n)] + [list(d_) + [ONE]]
        if spec[0] == 'commute_concat':
            exp = A.matmul(mat(s1, R1, d1), mat(s2, R2, d2))
            rule = 'K6 agreement of two compositions (unit rotations): matrix of concat(a, b) = matrix(a) matrix(b) = [s1 R1 | d1][s2 R2 | d2]'
        else:
            p_ = sv('a2', n)
            inner = A.vadd(rot.act(R2, A.vscale(p_, s2)), d2)
            exp = A.vadd(rot.act(R1, A.vscale(inner, s1)), d1)
            rule = 'K6 agreement of two compositions (unit rotations): concat(a, b)(p) = a(b(p))'
        cmp_struct(run, S, name, cv.val(leaf['v']), exp, rule, where=r.get('span'))


def run(tier):
    run = Run(PROP, tier, 'proof')
    specs.selfcheck()
    mat_selfcheck()
    PAIRS.clear()
    h = build()
    msyn = h.monomorphise(['f32', 'f64'], bound=None, kinds=None, method_syntax='only', soft=True)
    S, inv, meta = facts.extract(PROP, h.src())
    report_dropped(run, meta, h)
    run_specs(run, S, h, custom={'mat_inverse': check_mat_inverse, 'inverse': check_inverse, 'inverse_vec': check_inverse, 'mat_inverse_vec': check_mat_inverse_vec, 'to_matrix': check_to_matrix,
                                 'commute_point': check_commute, 'commute_vector': check_commute, 'commute_concat': check_pair, 'concat_apply': check_pair})
    run.floor('roots', len(run.roots), len(h.specs))
    run.notes['monomorphic_method_syntax_roots'] = len([n_ for n_ in msyn if n_ in run.roots])
    return run.finish(
        explanation='For Decomposed with Quaternion, Basis3 and Basis2 rotations: one, transform_vector = R(s v), transform_point = R(s p) + d, concat = (s1 s2, R1 R2, R1(s1 d2) + d1), Mul and concat_self = concat, inverse_transform = (1/s, R^-1, -R^-1(d)/s) and inverse_transform_vector = R^-1(v/s), each Some only under a test "scale ~ 0 is false" whose tolerance operands are the scalar defaults and None only when that test holds (reflexivity gives None for scale = 0); conversion to Matrix3/Matrix4 = [sR | d; 0 1]; conversion commutes with applying and composing, and concat(s,t)(p) = s(t(p)), both checked by comparing the summaries of the two compositions modulo unit rotations. For Matrix3 (2-D, 3-D) and Matrix4: one, concat and concat_self = the matrix product, transform_vector = M (v, 0), transform_point = M (p, 1) dehomogenised (Matrix4) / truncated (Matrix3 on the plane, whose last row is (0, 0, 1) for every transform) / M p (Matrix3 on space), inverse_transform = None exactly on paths that found det = 0 and M^-1 otherwise, inverse_transform_vector likewise applied to the direction; given these, concat(s,t)(p) = s(t(p)) is verified on the specification side as an identity of rational functions (mat_selfcheck).',
        trusted_base=['rustc nightly type checking / trait resolution / MIR construction', 'mirsum abstract interpreter and models', 'approx: X_ne = not X_eq, X_eq(x, x) holds; f32/f64 default_epsilon <= 1e-6 (assumption for the |scale| > 1e-6 clause)', 'rules/algebra.py, rules/specs.py (selfcheck)', 'only the three shipped rotation types are instantiated'],
        not_decided=['the numerical interplay of |scale| > 1e-6 with the default epsilon / ulps tolerance', 'third-party Rotation implementations'],
        exhaustive=True)
