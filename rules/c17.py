"""C17 — every spelling of an operator computes the same value."""
import algebra as A
from algebra import El, ZERO, ONE
from core import (Harness, VEC, PNT, MAT, sv, sm, sq, ss, Run, Conv, run_specs, report_dropped, ret_leaves, cmp_struct, single_ret, flat, check_fold, check_accumulate, el_of)
import facts
import specs

PROP = 'C17'
OPS = {'add': ('Add', '+'), 'sub': ('Sub', '-'), 'mul': ('Mul', '*'), 'div': ('Div', '/'), 'rem': ('Rem', '%')}
PRIMS = ['usize', 'u8', 'u16', 'u32', 'u64', 'isize', 'i8', 'i16', 'i32', 'i64', 'f32', 'f64']


def table():
    """(tag, Lhs type, Rhs type or None, Output type, op, bound, kind) kind: 'cc' compound rhs (4 forms), 'cs' scalar rhs (2 forms), 'un' unary"""
    t = []
    for n, (T, _) in VEC.items():
        V = '%s<S>' % T
        for op in ('add', 'sub'):
            t.append(('v%d' % n, V, V, V, op, 'BaseNum', 'cc', True))
        for op in ('mul', 'div', 'rem'):
            t.append(('v%d' % n, V, 'S', V, op, 'BaseNum', 'cs', True))
    for n, (T, _) in PNT.items():
        P, V = '%s<S>' % T, '%s<S>' % VEC[n][0]
        t.append(('p%d_v' % n, P, V, P, 'add', 'BaseNum', 'cc', True))
        t.append(('p%d_v' % n, P, V, P, 'sub', 'BaseNum', 'cc', True))
        t.append(('p%d_p' % n, P, P, V, 'sub', 'BaseNum', 'cc', False))
        for op in ('mul', 'div', 'rem'):
            t.append(('p%d' % n, P, 'S', P, op, 'BaseNum', 'cs', True))
    for n, M in MAT.items():
        Tm, Tv = '%s<S>' % M, '%s<S>' % VEC[n][0]
        for op in ('add', 'sub'):
            t.append(('m%d' % n, Tm, Tm, Tm, op, 'BaseFloat', 'cc', True))
        t.append(('m%d_m' % n, Tm, Tm, Tm, 'mul', 'BaseFloat', 'cc', False))
        t.append(('m%d_v' % n, Tm, Tv, Tv, 'mul', 'BaseFloat', 'cc', False))
        for op in ('mul', 'div', 'rem'):
            t.append(('m%d_s' % n, Tm, 'S', Tm, op, 'BaseFloat', 'cs', True))
        t.append(('m%d' % n, Tm, None, Tm, 'neg', 'BaseFloat', 'un', False))
    Q = 'Quaternion<S>'
    for op in ('add', 'sub'):
        t.append(('q', Q, Q, Q, op, 'BaseFloat', 'cc', True))
    t.append(('q_q', Q, Q, Q, 'mul', 'BaseFloat', 'cc', False))
    t.append(('q_v', Q, 'Vector3<S>', 'Vector3<S>', 'mul', 'BaseFloat', 'cc', False))
    for op in ('mul', 'div', 'rem'):
        t.append(('q_s', Q, 'S', Q, op, 'BaseFloat', 'cs', True))
    t.append(('q', Q, None, Q, 'neg', 'BaseFloat', 'un', False))
    for u, T in (('rad', 'Rad<S>'), ('deg', 'Deg<S>')):
        for op in ('add', 'sub', 'rem'):
            t.append((u, T, T, T, op, 'BaseNum', 'cc', True))
        t.append((u + '_a', T, T, 'S', 'div', 'BaseNum', 'cc', False))
        for op in ('mul', 'div'):
            t.append((u + '_s', T, 'S', T, op, 'BaseNum', 'cs', True))
        t.append((u, T, None, T, 'neg', 'BaseFloat', 'un', False))
    for b in ('Basis2<S>', 'Basis3<S>'):
        t.append((b[:6].lower(), b, b, b, 'mul', 'BaseFloat', 'cc', False))
    return t


def build(tier):
    h = Harness(PROP)
    h.groups = []
    for tag, L, Rt, O, op, bound, kind, has_assign in table():
        g = '<S: %s>' % bound
        base = '%s__%s' % (op, tag)
        forms = []
        if kind == 'cc':
            sym = OPS[op][1]
            for f, la, lb in (('vv', L, Rt), ('vr', L, '&' + Rt), ('rv', '&' + L, Rt), ('rr', '&' + L, '&' + Rt)):
                forms.append(h.root('%s__%s' % (base, f), '%s(a: %s, b: %s) -> %s' % (g, la, lb, O), 'a %s b' % sym, ('form',)))
        elif kind == 'cs':
            sym = OPS[op][1]
            for f, la in (('v', L), ('r', '&' + L)):
                forms.append(h.root('%s__%s' % (base, f), '%s(a: %s, b: S) -> %s' % (g, la, O), 'a %s b' % sym, ('form',)))
        else:
            for f, la in (('v', L), ('r', '&' + L)):
                forms.append(h.root('%s__%s' % (base, f), '%s(a: %s) -> %s' % (g, la, O), '-a', ('form',)))
        assign = None
        if has_assign:
            sym = OPS[op][1]
            assign = h.root('%s_assign__%s' % (op, tag), '%s(a: &mut %s, b: %s)' % (g, L, Rt), '*a %s= b' % sym, ('form',))
        h.groups.append((base, forms, assign))
    # scalar on the left: 3 ops x 12 primitive types x 10 compound types x 2 spellings
    h.left = []
    comps = [(T, len(c)) for n, (T, c) in VEC.items()] + [(T, len(c)) for n, (T, c) in PNT.items()] + [(M, n * n) for n, M in MAT.items()]
    for T, nleaves in comps:
        for p in PRIMS:
            for op in ('mul', 'div', 'rem'):
                sym = OPS[op][1]
                for f, rb in (('v', '%s<%s>' % (T, p)), ('r', '&%s<%s>' % (T, p))):
                    nm = h.root('left_%s__%s__%s__%s' % (op, p, T.lower(), f), '(a: %s, b: %s) -> %s<%s>' % (p, rb, T, p), 'a %s b' % sym, ('left', op, nleaves, p))
                    h.left.append(nm)
    for p in ('f32', 'f64'):
        for op in ('mul', 'div'):
            sym = OPS[op][1]
            for f, rb in (('v', 'Quaternion<%s>' % p), ('r', '&Quaternion<%s>' % p)):
                nm = h.root('left_%s__%s__quaternion__%s' % (op, p, f), '(a: %s, b: %s) -> Quaternion<%s>' % (p, rb, p), 'a %s b' % sym, ('left', op, 4, p))
                h.left.append(nm)
    # iter::Sum / iter::Product
    h.folds = []

    def fold(tag, T, bound, trait, init, stepkind):
        for f, item, lt in (('v', T, ''), ('r', "&'a " + T, "'a, ")):
            sb = ("S: 'a + %s" % bound) if lt else ('S: %s' % bound)
            nm = h.root('%s__%s__%s' % (trait.lower(), tag, f), '<%s%s, I: Iterator<Item = %s>>(i: I) -> %s' % (lt, sb, item, T), '<%s as %s<%s>>::%s(i)' % (T, trait, item, trait.lower()),
                        ('fold', init, stepkind, tag))
            h.folds.append(nm)
    for n, (T, _) in VEC.items():
        fold('v%d' % n, '%s<S>' % T, 'BaseNum', 'Sum', [ZERO] * n, ('vadd', n))
    for n, M in MAT.items():
        fold('m%d' % n, '%s<S>' % M, 'BaseFloat', 'Sum', [ZERO] * (n * n), ('vadd', n * n))
        fold('m%d' % n, '%s<S>' % M, 'BaseFloat', 'Product', flat(A.identity(n)), ('matmul', n))
    fold('q', 'Quaternion<S>', 'BaseFloat', 'Sum', [ZERO] * 4, ('vadd', 4))
    fold('q', 'Quaternion<S>', 'BaseFloat', 'Product', [ZERO, ZERO, ZERO, ONE], ('qmul',))
    fold('rad', 'Rad<S>', 'BaseFloat', 'Sum', [ZERO], ('vadd', 1))
    fold('deg', 'Deg<S>', 'BaseFloat', 'Sum', [ZERO], ('vadd', 1))
    fold('b2', 'Basis2<S>', 'BaseFloat', 'Product', flat(A.identity(2)), ('matmul', 2))
    fold('b3', 'Basis3<S>', 'BaseFloat', 'Product', flat(A.identity(3)), ('matmul', 3))
    return h


def leaf_names(S, prefix):
    """atoms acc.* / item.* in structural (declaration) order as they appear in the callable's arguments"""
    return sorted({t[1] for t in S.terms if t[0] == 'v' and t[1].startswith(prefix)})


def sym_like(prefix, stepkind):
    k = stepkind[0]
    if k == 'vadd':
        return None
    if k == 'matmul':
        n = stepkind[1]
        return None
    return None


def check_form(run, S, name, spec, kw):
    pass    # handled group-wise in check_groups


def form_paths(run, S, name, post=None):
    """[(guard key set, strict leaf keys, leaf, guards)] of the Return leaves of one spelling (None when not analysable /
    panicking other than arithmetically)"""
    from core import strict_leaves, strict_key
    r = run.use_root(S, name)
    if r is None:
        run.ob('%s:%s:present' % (run.prop, name), False, rule='root-present', expected='harness root summarised', found='missing (API form vanished or wrapper failed to compile)')
        return None
    ls = ret_leaves(r['out'])
    bad = [l for g_, l in ls if l['k'] in ('top', 'cut')]
    if bad:
        run.ob('%s:%s:analysable' % (run.prop, name), False, rule='analysable', expected='finite summary', found='not analysable: ' + str(bad[0].get('why')))
        return None
    rets = [(g_, l) for g_, l in ls if l['k'] == 'ret']
    if not rets or len(rets) > 16:
        run.ob('%s:%s:shape' % (run.prop, name), False, rule='straight-line', expected='1..16 Return leaves', found=len(rets), where=r.get('span'))
        return None
    out = []
    memo = {}
    for g_, l in rets:
        gk = frozenset((kind, strict_key(S, tid, memo), want) for kind, tid, want in g_)
        v = l['v'] if post is None else l['post'].get(post)
        if v is None:
            run.ob('%s:%s:post' % (run.prop, name), False, rule='K6', expected='post-state of the receiver', found='absent')
            return None
        out.append((gk, strict_leaves(S, v, None, memo), l, g_, v))
    return r, out


def check_groups(run, S, h):
    """K6: the spellings must compute the SAME term per component - compared structurally, identifying only
    a+b with b+a and a*b with b*a (so x/s vs x*(1/s), which differ in rounding and for integers, do not agree).
    When the code special-cases some inputs, the spellings are compared path by path: the same path conditions must lead
    to the same terms."""
    for base, forms, assign in h.groups:
        ref = form_paths(run, S, forms[0])
        if ref is None:
            continue
        rref, pref = ref
        refmap = {gk: (keys, v) for gk, keys, l, g_, v in pref}
        reftxt = S.showval(pref[0][4])[:300]

        def compare(f, other, rule):
            r2, p2 = other
            bad = []
            for gk, keys, l, g_, v in p2:
                if gk not in refmap:
                    bad.append(('path', [S.show(t)[:60] for k_, t, w in g_][:3]))
                    continue
                rk = refmap[gk][0]
                diff = [i for i, (x, y) in enumerate(zip(keys, rk)) if x != y] if len(keys) == len(rk) else ['arity']
                if diff:
                    bad.append((diff[:4], S.showval(v)[:200]))
            if len(p2) != len(pref):
                bad.append(('paths', '%d vs %d' % (len(p2), len(pref))))
            run.ob('%s:%s=%s' % (PROP, forms[0], f), not bad, rule=rule, expected=reftxt, found='differ: %s' % bad[:3] if bad else 'identical', where=r2.get('span'))
        for f in forms[1:]:
            other = form_paths(run, S, f)
            if other is not None:
                compare(f, other, 'K6 sibling agreement: by-reference spelling computes the same term as the by-value spelling')
        if assign is not None:
            other = form_paths(run, S, assign, post='a0')
            if other is not None:
                compare(assign, other, 'K6 sibling agreement: a op= b leaves in a exactly the value of a op b')


def check_left(run, S, name, spec, kw):
    op, nleaves, prim = spec[1], spec[2], spec[3]
    r = run.use_root(S, name)
    if r is None:
        run.ob('%s:%s:present' % (run.prop, name), False, rule='root-present', expected='root', found='missing (this scalar-on-the-left form no longer exists)')
        return
    where = r.get('span')
    key = '%s:%s' % (run.prop, name)
    ls = ret_leaves(r['out'])
    rets = [l for g_, l in ls if l['k'] == 'ret']
    others = [l for g_, l in ls if l['k'] != 'ret']
    okp = all(l['k'] == 'panic' and (l['why'].startswith('Overflow') or l['why'] in ('DivisionByZero', 'RemainderByZero')) for l in others)
    is_float = prim in ('f32', 'f64')
    if not run.ob(key + ':shape', 1 <= len(rets) <= 8 and okp and (not is_float or not others), rule='K6 scalar-left', expected='Return leaves; only overflow / division-by-zero panics (none for floats)',
                  found='%d Return, others %s' % (len(rets), sorted({l.get('why', l['k']) for l in others})), where=where):
        return
    # atoms of the right operand in declaration order
    arg = r['args'][1]['v']
    if 'r' in arg:
        arg = arg['r']['val']
    comp_ids = []

    def walk2(v):
        if 'a' in v:
            for x in v['a']:
                walk2(x)
        else:
            comp_ids.append(v.get('t'))
    walk2(arg)
    a0 = r['args'][0]['v'].get('t')
    from core import _leaf_equalities
    multi = len(rets) > 1
    for li, (guards, leaf) in enumerate([(g_, l) for g_, l in ls if l['k'] == 'ret']):
        sfx = ':path%d' % li if multi else ''
        leaves = []

        def walk(v):
            if 'a' in v:
                for x in v['a']:
                    walk(x)
            else:
                leaves.append(v)
        walk(leaf['v'])
        if not run.ob(key + ':arity' + sfx, len(leaves) == nleaves, rule='K6 scalar-left', expected=nleaves, found=len(leaves), where=where):
            continue
        # a special-case path (`if scalar == 1 { return v }`): the scalar is known exactly there, and 1 * x = x exactly
        known = None
        if multi:
            eqt = _leaf_equalities(S, guards).get('a0')
            if eqt is not None and S.terms[eqt][0] in ('i', 'f'):
                known = eqt
        one_known = False
        if known is not None:
            kt = S.terms[known]
            import struct
            one_known = (kt[0] == 'i' and kt[1] == '1') or (kt[0] == 'f' and struct.unpack('<d', struct.pack('<Q', int(kt[1])))[0] == 1.0)
        bad = []
        for i, (lv, cid) in enumerate(zip(leaves, comp_ids)):
            t = S.terms[lv['t']] if 't' in lv else None
            ok_ = bool(t and t[0] == 'a' and t[1] == op and (t[2] == [a0, cid] or (known is not None and t[2] == [known, cid])))
            if not ok_ and t and t[0] == 'a' and t[1] == 'ite' and len(t[2]) == 3 and op == 'mul':
                # a merged fast path `if scalar == 1 { component } else { scalar * component }`: 1 * x = x exactly
                c_, th_, el_ = S.terms[t[2][0]], t[2][1], S.terms[t[2][2]]
                is_one = lambda z: S.terms[z][0] == 'i' and S.terms[z][1] == '1' or (S.terms[z][0] == 'f' and Conv(S).el(z).is_const() and Conv(S).el(z).const() == 1)
                cond_ok = c_[0] == 'a' and c_[1] == 'eq' and len(c_[2]) == 2 and ((c_[2][0] == a0 and is_one(c_[2][1])) or (c_[2][1] == a0 and is_one(c_[2][0])))
                ok_ = bool(cond_ok and th_ == cid and el_[0] == 'a' and el_[1] == op and el_[2] == [a0, cid])
            if not ok_ and one_known and op == 'mul' and lv.get('t') == cid:
                ok_ = True
            if not ok_:
                bad.append((i, S.showval(lv)[:60]))
        run.ob(key + ':operands' + sfx, not bad, rule='K6 scalar-left: primitive op(scalar, component_i) with the scalar as LEFT operand, in position i', expected='%s(a0, component_i) for every i' % op, found=bad[:3] if bad else 'all', where=where)


def check_foldroot(run, S, name, spec, kw):
    init, stepkind, tag = spec[1], spec[2], spec[3]
    k = stepkind[0]

    def names(prefix, n, shape):
        if shape == 'mat':
            comps = 'xyzw'[:n]
            pre = prefix + ('.mat' if tag.startswith('b') else '')
            return [[El.v('%s.%s.%s' % (pre, c, r)) for r in comps] for c in comps]
        if shape == 'quat':
            return (El.v(prefix + '.s'), [El.v('%s.v.%s' % (prefix, c)) for c in 'xyz'])
        return None

    def step(res):
        if k == 'vadd':
            n = stepkind[1]
            acc = leaf_atoms(S, 'acc', tag, n)
            item = leaf_atoms(S, 'item', tag, n)
            return all(A.eq(el_of(x), y + z) for x, y, z in zip(res, acc, item))
        if k == 'matmul':
            n = stepkind[1]
            a, b = names('acc', n, 'mat'), names('item', n, 'mat')
            exp = flat(A.matmul(a, b))
            return all(A.eq(el_of(x), y) for x, y in zip(res, exp))
        if k == 'qmul':
            a, b = names('acc', 0, 'quat'), names('item', 0, 'quat')
            p = specs.qmul(a, b)
            exp = list(p[1]) + [p[0]]
            return all(A.eq(el_of(x), y) for x, y in zip(res, exp))
        return False
    def step_exp(acc, item):
        # flat accumulator / item leaves in field order -> flat expected leaves
        if k == 'vadd':
            return [x + y for x, y in zip(acc, item)]
        if k == 'matmul':
            n = stepkind[1]
            a = [acc[c * n:(c + 1) * n] for c in range(n)]
            b = [item[c * n:(c + 1) * n] for c in range(n)]
            return flat(A.matmul(a, b))
        if k == 'qmul':
            p_ = specs.qmul((acc[3], acc[:3]), (item[3], item[:3]))
            return list(p_[1]) + [p_[0]]
        return []
    check_accumulate(run, S, name, init, step_exp, step, what='sum' if k == 'vadd' else 'product')


def leaf_atoms(S, prefix, tag, n):
    if tag.startswith('v'):
        return [El.v('%s.%s' % (prefix, c)) for c in 'xyzw'[:n]]
    if tag.startswith('m'):
        d = int(tag[1])
        return [El.v('%s.%s.%s' % (prefix, c, r)) for c in 'xyzw'[:d] for r in 'xyzw'[:d]]
    if tag == 'q':
        return [El.v('%s.v.%s' % (prefix, c)) for c in 'xyz'] + [El.v(prefix + '.s')]
    return [El.v(prefix + '.0')]


def check_impl_table(run, inv):
    """every operator group has all its spellings (from the impl table of the type-checked crate)"""
    import re
    optraits = {'core::ops::arith::' + t for t in ('Add', 'Sub', 'Mul', 'Div', 'Rem', 'Neg')}
    groups = {}
    param_rhs = set()
    for i in inv['impls']:
        if i['trait'] not in optraits:
            continue
        def normty(x):
            x = re.sub(r'/#\d+', '', x)
            x = re.sub(r"&'\w+ ", '&', x)
            x = x.replace("&'{erased} ", '&')
            return x.strip()
        lhs = normty(i['self'])
        targs = i['trait_args']
        m = re.match(r'^\[(.*)\]$', targs)
        parts = split_top(m.group(1)) if m else []
        rhs = normty(parts[1]) if len(parts) > 1 else ''
        bl, br = lhs.lstrip('&'), rhs.lstrip('&')
        key = (i['trait'].split('::')[-1], bl, br)
        groups.setdefault(key, set()).add((lhs.startswith('&'), rhs.startswith('&')))
        # a right operand that is a bare type parameter (whatever it is called) is the scalar
        if len(parts) > 1 and re.match(r"^\w+/#\d+$", parts[1].strip()):
            param_rhs.add(key)
    n_full = 0
    for (tr, bl, br), forms in sorted(groups.items()):
        prim_l = bl in PRIMS
        unary = tr == 'Neg'
        scalar_r = (tr, bl, br) in param_rhs or br in PRIMS
        # The statement is about the spellings that EXIST agreeing with one another (decided root by root above); which spellings
        # exist is the crate's API.  The table is kept as evidence of what was enumerated; the only requirement is the by-value
        # form every other spelling is compared with (additional reference forms, or a new by-value-only operator, are fine).
        ok = (False, False) in forms or (unary and bool(forms))
        n_full += 1
        run.ob('%s:impl-table:%s:%s:%s' % (PROP, tr, bl, br), ok, rule='K6 impl-table completeness', expected='the by-value spelling exists (the reference spellings are compared with it)', found=sorted(forms), nontrivial=False)
    run.floor('operator_groups', n_full, 450)
    left = [k for k in groups if k[1] in PRIMS]
    run.floor('scalar_left_groups', len(left), 364)


def split_top(s):
    out, depth, cur = [], 0, ''
    for ch in s:
        if ch in '<([':
            depth += 1
        elif ch in '>)]':
            depth -= 1
        if ch == ',' and depth == 0:
            out.append(cur.strip())
            cur = ''
        else:
            cur += ch
    if cur.strip():
        out.append(cur.strip())
    return out


def run(tier):
    run = Run(PROP, tier, 'other')
    specs.selfcheck()
    h = build(tier)
    S, inv, meta = facts.extract(PROP, h.src(), inventory=True)
    report_dropped(run, meta)
    run_specs(run, S, h, custom={'form': check_form, 'left': check_left, 'fold': check_foldroot})
    check_groups(run, S, h)
    check_impl_table(run, inv)
    run.floor('scalar_left_impls', len([n for n in h.left if n in run.roots]), 728)
    run.floor('sum_product_impls', len([n for n in h.folds if n in run.roots]), 32)
    run.floor('roots', len(run.roots), len(h.specs))
    return run.finish(
        explanation='Sibling cross-check, exhaustive over the impl table: for every operator group (trait, Lhs, Rhs) on vectors, points, matrices, quaternions, angles and bases, the summaries of all by-value / by-reference spellings are compared with each other component by component and the post-state of the compound-assignment form with the value of the operator; the impl table of the type-checked crate must contain every spelling. Each of the 728 scalar-on-the-left impls (3 ops x 12 primitive types x 10 compound types x 2 spellings + 8 quaternion) must summarise to exactly op(scalar, component_i) in position i with the scalar as first operand of the primitive operation, plus only overflow / division-by-zero panics for integers. Every iter::Sum / iter::Product impl (values and references) must be one fold from zero()/one()/identity() whose callable, summarised separately, is acc + item resp. acc * item with the accumulator on the left.',
        trusted_base=['rustc nightly type checking / trait resolution / MIR construction', 'mirsum abstract interpreter (primitive arithmetic as terms; overflow / zero-division asserts fork to Panic leaves)', 'Iterator::fold is the left fold', 'congruence: a straight-line program built from equal operator forms gives equal results'],
        not_decided=[],
        exhaustive=True)
