"""C15 — between_vectors and from_arc return the shortest rotation taking a onto b."""
from fractions import Fraction as Fr
import algebra as A
from algebra import El, ZERO, ONE
from core import (Harness, sv, sm, sq, ss, Run, Conv, run_specs, report_dropped, ret_leaves, cmp_struct, single_ret, flat, parse_guard, _path_eq_pairs, paths_agree, conjuncts)
import facts
import specs
from specs import TWO_PI
from c09 import trees_equal
import c05

PROP = 'C15'


def build():
    h = Harness(PROP)
    g = '<S: BaseFloat>'
    V, V2 = 'Vector3<S>', 'Vector2<S>'
    h.root('between_vectors__q', g + '(a: %s, b: %s) -> Quaternion<S>' % (V, V), '<Quaternion<S> as Rotation>::between_vectors(a, b)', ('arc', 'between'))
    h.root('between_vectors__b3', g + '(a: %s, b: %s) -> Basis3<S>' % (V, V), '<Basis3<S> as Rotation>::between_vectors(a, b)', ('deleg', 'code'))
    h.root('ref_between_vectors__b3', g + '(a: %s, b: %s) -> Basis3<S>' % (V, V), 'Basis3::from(<Quaternion<S> as Rotation>::between_vectors(a, b))', ('deleg', 'ref'))
    # Basis3::between_vectors is the quaternion's arc converted to a matrix: that the conversion yields the matrix of the SAME rotation
    # is C05's quaternion-to-matrix rule, applied here to the code this check depends on
    h.root('dep_b3_from_q', g + '(a: Quaternion<S>) -> Basis3<S>', 'Basis3::from(a)', ('qmat', 3))
    h.root('dep_b3_from_quaternion', g + '(a: &Quaternion<S>) -> Basis3<S>', 'Basis3::from_quaternion(a)', ('qmat', 3))
    h.root('between_vectors__b2', g + '(a: %s, b: %s) -> Basis2<S>' % (V2, V2), '<Basis2<S> as Rotation>::between_vectors(a, b)', ('b2',))
    h.root('from_arc', g + '(a: %s, b: %s, f: Option<%s>) -> Quaternion<S>' % (V, V, V), 'Quaternion::from_arc(a, b, f)', ('arc', 'from_arc'))
    return h


def approx_eq_guards(S, cv, guards):
    """[(parsed guard, truth)] for approximate/exact equality tests on the path"""
    out = []
    for kind, tid, want in guards:
        if kind != 'ite':
            continue
        cj = conjuncts(S, tid)
        if len(cj) > 1:
            # `c1 & c2 & c3` evaluated without short-circuit (`[bool; 3] == [true; 3]`): true settles every conjunct; false says
            # that not all of them hold, kept as one disjunctive fact
            gs = [parse_guard(S, cv, x) for x in cj]
            if all(g_['kind'] in ('ulps', 'abs_diff', 'relative', 'eq') for g_ in gs):
                if want is True:
                    out.extend((g_, not g_['neg']) for g_ in gs)
                elif not any(g_['neg'] for g_ in gs):
                    out.append(({'kind': 'conj', 'parts': gs, 'text': S.show(tid)}, False))
            continue
        g_ = parse_guard(S, cv, tid)
        if g_['kind'] in ('ulps', 'abs_diff', 'relative', 'eq'):
            out.append((g_, want != g_['neg']))
    return out


def axis_nonzero(axis, a, eqs):
    """axis = w / sqrt(w.w) with w built from the input a.  Decide that w != 0 whenever a != 0 from what the path tested:
    (i) some component of w (or w.w) was compared with zero and found different, or (ii) the quantities found equal to zero
    on the path (single components, or sums of squares) substituted as zeros turn w.w into a.a."""
    K = A.CTX.kind
    roots = set()
    for x in axis:
        for m in x.t:
            for v, e in m:
                if K[v][0] == 'sqrt' and e < 0:
                    roots.add(v)
    if not roots:
        return A.eq(A.dot(axis, axis), ONE), 'axis is not normalised on this path'
    if len(roots) != 1:
        return False, 'several radicals in the axis'
    sq_ = list(roots)[0]
    N = K[sq_][1]
    w = [(x * El.a(sq_)).norm() for x in axis]
    zero = {}
    for g_, truth in eqs:
        if g_['kind'] == 'conj':
            # not every part holds: if every part is `component of w == 0`, some component of w is non-zero
            Es = [(p_['a'] - p_['b']).norm() for p_ in g_['parts']]
            Es = [E for E in Es if not E.zero()]          # (`0 == 0` always holds: one of the others fails)
            if Es and all(any((not wi.zero()) and (A.eq(E, wi) or A.eq(E, -wi)) for wi in w) for E in Es):
                return True, 'tested not all zero: %s' % g_['text'][:80]
            continue
        E = (g_['a'] - g_['b']).norm()
        if E.zero():
            if not truth:
                return True, 'infeasible path (0 == 0 found false)'
            continue
        if not truth:
            if any((not wi.zero()) and (A.eq(E, wi) or A.eq(E, -wi)) for wi in w) or A.eq(E, N):
                return True, 'tested non-zero: %s' % g_['text'][:80]
            continue
        # found equal to zero on this path
        if len(E.t) == 1:
            (m, c), = E.t.items()
            if len(m) == 1 and m[0][1] >= 1 and K[m[0][0]][0] == 'base':
                zero[m[0][0]] = ZERO
        elif all(len(m) == 1 and m[0][1] == 2 and c > 0 and K[m[0][0]][0] == 'base' for m, c in E.t.items()):
            for m in E.t:
                zero[m[0][0]] = ZERO
    Ns = A.substitute(N, zero).norm()
    a2 = A.substitute(A.dot(a, a), zero).norm()
    if a2.zero():
        return True, 'the zero tests of the path force a = 0 (outside the quantifier: non-zero vectors)'
    if not Ns.zero() and A.eq(Ns, a2):
        return True, 'components tested zero force |w|^2 = |a|^2'
    return False, '|w|^2 = %s under the zero tests of the path; no component of w tested non-zero' % A.show(Ns, 6)


def check_arc(run, S, name, spec, kw):
    which = spec[1]
    r = run.use_root(S, name)
    if r is None:
        run.ob('%s:%s:present' % (PROP, name), False, rule='root-present', expected='root', found='missing')
        return
    where = r.get('span')
    cv = Conv(S)
    a, b = sv('a0', 3), sv('a1', 3)
    dot = A.dot(a, b)
    k = A.sqrt(A.dot(a, a) * A.dot(b, b))
    ls = ret_leaves(r['out'])
    key0 = '%s:%s' % (PROP, name)
    if any(l['k'] != 'ret' for g_, l in ls):
        run.ob(key0 + ':analysable', False, rule='analysable', expected='only Return leaves', found=[(l['k'], l.get('why')) for g_, l in ls if l['k'] != 'ret'][:2], where=where)
        return

    def same_dir_test(g_):
        x, y = g_['a'], g_['b']
        for p_, q_ in ((x, y), (y, x)):
            if (A.eq(p_, dot) and (A.eq(q_, ONE) or A.eq(q_, k))) or (A.eq(p_ * k, dot) and A.eq(q_, ONE)):
                return True
        return False

    def opp_dir_test(g_):
        x, y = g_['a'], g_['b']
        for p_, q_ in ((x, y), (y, x)):
            if (A.eq(p_, dot) and (A.eq(q_, -ONE) or A.eq(q_, -k))) or (A.eq(p_ * k, dot) and A.eq(q_, -ONE)):
                return True
        return False
    kinds = {}
    for li, (guards, leaf) in enumerate(ls):
        key = '%s:leaf%d' % (key0, li)
        val = cv.val(leaf['v'])
        qv, qs = val[0], val[1]
        eqs = approx_eq_guards(S, cv, guards)
        # "treated as exactly (anti)parallel" is allowed only within the scalar type's own default tolerance (that is where the
        # 1e-7 rad / 1e-4 rad of the statement come from for f64): an approximate test with any other tolerance operand widens it
        loose = []
        for g_, t in eqs:
            for p_ in (g_['parts'] if g_['kind'] == 'conj' else [g_]):
                if p_['kind'] in ('ulps', 'abs_diff', 'relative') and not p_.get('default_tols'):
                    loose.append(p_['text'][:100])
        run.ob(key + ':tolerance', not loose, rule='K5 guard operands', expected='approximate direction tests use the default epsilon / max_ulps of the scalar type', found=loose[:2] or 'defaults', where=where)
        same = [t for g_, t in eqs if g_['kind'] != 'conj' and same_dir_test(g_)]
        opp = [t for g_, t in eqs if g_['kind'] != 'conj' and opp_dir_test(g_)]
        is_same = bool(same) and same[-1]
        is_opp = bool(opp) and opp[-1]
        if is_same:
            kinds['same'] = kinds.get('same', 0) + 1
            ok = A.eq(qs, ONE) and all(A.eq(x, ZERO) for x in qv)
            run.ob(key + ':same', ok, rule='K3', expected='identity rotation when the directions test equal', found=S.showval(leaf['v'])[:160], where=where)
        elif is_opp:
            kinds['opp'] = kinds.get('opp', 0) + 1
            run.ob(key + ':opp-after-same', bool(same) and not same[-1], rule='K5', expected='the same-direction test was evaluated (false) before', found=[g_['text'][:80] for g_, t in eqs], where=where)
            if which == 'between':
                ok = A.eq(qs, ZERO)
                run.ob(key + ':half-turn', ok, rule='K3', expected='scalar part 0 (a half turn)', found=A.show(qs.norm() if isinstance(qs, El) else qs), where=where)
                axis = qv
            elif A.eq(qs, ZERO):
                # the half turn written directly as (0, axis)
                run.ob(key + ':half-turn', True, rule='K3', expected='scalar part 0 (a half turn)', found='0', where=where)
                axis = qv
            else:
                c = El.c(Fr(TWO_PI) / 4)
                cs, sn = A.fn('cos', c), A.fn('sin', c)
                ok = A.eq(qs, cs)
                run.ob(key + ':half-turn', ok, rule='K3 + K13', expected='from_axis_angle(axis, half turn): scalar part cos(pi/2)', found=S.showval(leaf['v']['a'][1])[:160], where=where)
                try:
                    axis = [x / sn for x in qv]
                    axis_ok = all(A.eq(x * sn, y) for x, y in zip(axis, qv))
                except ZeroDivisionError:
                    axis_ok = False
                    axis = qv
                run.ob(key + ':axis-form', axis_ok, rule='K3', expected='vector part = axis * sin(pi/2)', found=S.showval(leaf['v']['a'][0])[:160], where=where)
            # fallback given?
            disc = [(kind, tid, want) for kind, tid, want in guards if kind == 'switch' and S.terms[tid][0] == 'a' and S.terms[tid][1] == 'discr']
            used_fallback = which == 'from_arc' and any(want == 1 for kind, tid, want in disc)
            if used_fallback:
                whole = A.fn('proj', A.fn('variant', El.v('a2'), El.c(1)), El.c(0))
                if isinstance(axis, El):
                    # the fallback vector moved as one opaque value
                    ok = A.eq(axis, whole)
                    shown = [A.show(axis.norm(), 3)]
                else:
                    fb = [A.fn('proj', whole, El.c(i)) for i in range(3)]
                    ok = len(axis) == 3 and all(A.eq(x, y) for x, y in zip(axis, fb))
                    shown = [A.show(x.norm(), 3) for x in axis]
                run.ob(key + ':fallback', ok, rule='K1', expected='the caller\'s fallback axis is used unchanged', found=shown, where=where)
            else:
                perp = A.dot(axis, a)
                run.ob(key + ':perpendicular', A.eq(perp, ZERO), rule='K4', expected='axis . a = 0 identically', found=A.show(perp.norm(), 4), where=where)
                n2 = A.dot(axis, axis)
                run.ob(key + ':unit-axis', A.eq(n2, ONE), rule='K4', expected='|axis| = 1', found=A.show(n2.norm(), 4), where=where)
                nz, why = axis_nonzero(axis, a, eqs)
                run.ob(key + ':nonzero-axis', nz, rule='K5', expected='the axis normalised on this path is non-zero for every non-zero a: one of its components was tested non-zero on the path, or the components tested zero on the path force |w|^2 = |a|^2',
                       found=why, where=where)
        else:
            kinds['general'] = kinds.get('general', 0) + 1
            run.ob(key + ':general-guards', bool(same) and bool(opp) and not same[-1] and not opp[-1], rule='K5', expected='general leaf reached when neither the parallel nor the antiparallel test holds',
                   found=[(g_['text'][:60], t) for g_, t in eqs], where=where)
            w = A.cross(a, b) + [k + dot]
            sig = A.sqrt(A.dot(w, w))
            got = list(qv) + [qs]
            ok = all(A.eq(x * sig, y) for x, y in zip(got, w))
            run.ob(key + ':general', ok, rule='K3', expected='normalize((sqrt(|a|^2|b|^2) + a.b, a x b)) - the operand order of the cross product matters', found=S.showval(leaf['v'])[:200], where=where)
    run.ob(key0 + ':cases', all(kinds.get(x, 0) >= 1 for x in ('same', 'opp', 'general')), rule='K5', expected='parallel, antiparallel and general outcomes all exist', found=kinds, where=where)


PAIR = {}


def check_deleg(run, S, name, spec, kw):
    # code and reference roots are paired by their instantiation suffix (generic, __f32, __f64_m, ..)
    suffix = name.split('__b3', 1)[-1]
    if spec[1] == 'ref':
        run.use_root(S, name)
        return
    # (the reference exists per scalar type; the type-relative spelling `<Basis3<f32>>::between_vectors` of the code shares it)
    base = name.split('__b3', 1)[0].replace('between_vectors', 'ref_between_vectors') + '__b3'
    refname = base + suffix
    if refname not in S.roots and suffix.endswith('_p'):
        refname = base + suffix[:-2]
    PAIR_ = {'code': name, 'ref': refname}
    rc, rr = run.use_root(S, PAIR_['code']), run.use_root(S, PAIR_['ref'])
    if rc is None or rr is None:
        run.ob('%s:%s:present' % (PROP, name), False, rule='root-present', expected='root', found='missing')
        return
    cv = Conv(S)
    ok, msg = trees_equal(S, cv, rc['out'], rr['out'])
    if ok:
        run.ob('%s:%s:delegation' % (PROP, PAIR_['code']), True, rule='K6 delegation equality', expected='Basis3::between_vectors(a,b) == Basis3::from(Quaternion::between_vectors(a,b)) leaf by leaf',
               found='equal', where=rc.get('span'))
    else:
        # not the same tree (the code special-cases something): equal on every pair of compatible paths
        paths_agree(run, S, '%s:%s:delegation' % (PROP, PAIR_['code']), rc['out'], rr['out'], 'K6 delegation equality, path by path: Basis3::between_vectors(a,b) == Basis3::from(Quaternion::between_vectors(a,b))', where=rc.get('span'))


def check_b2(run, S, name, spec, kw):
    sr = single_ret(run, S, name)
    if sr is None:
        return
    r, leaf = sr
    where = r.get('span')
    cv = Conv(S)
    M = cv.val(leaf['v'])
    while len(M) == 1:
        M = M[0]
    key = '%s:%s' % (PROP, name)
    a, b = sv('a0', 2), sv('a1', 2)
    dotab = A.dot(a, b)
    perp = a[0] * b[1] - a[1] * b[0]
    n2 = A.dot(a, a) * A.dot(b, b)
    # a special-case path whose condition forces |a||b| = 0 (a zero vector) lies outside the quantifier (unit vectors)
    for x_, y_ in _path_eq_pairs(S, getattr(S, 'path_guards', ())):
        try:
            d = cv.el(x_) - cv.el(y_)
            if A.eq(d * d, n2) or A.eq(d, n2) or A.eq(d * d, A.dot(a, a)) or A.eq(d * d, A.dot(b, b)):
                run.ob(key + ':degenerate-path', True, rule='K5', expected='path taken only for a zero-length input', found=S.show(x_)[:120], where=where, nontrivial=False)
                return
        except (ValueError, ZeroDivisionError):
            pass
    # sin/cos of atan2(y, x) are normalised to y/r, x/r by the algebra layer, so from_angle(a.angle(b)) and a directly
    # built matrix have the same form:  [[c, s], [-s, c]],  c^2 + s^2 = 1,  (c, s) = k (a.b, a perp b)  with k > 0
    c, s_ = M[0][0], M[0][1]
    form = A.eq(M[1][1], c) and A.eq(M[1][0], -s_)
    run.ob(key + ':form', form, rule='K3', expected='a rotation matrix [[c, s], [-s, c]]', found=[A.show(x, 4) for x in flat(M)], where=where)
    unit = A.eq(c * c + s_ * s_, ONE)
    run.ob(key + ':rotation', unit, rule='K3', expected='c^2 + s^2 = 1', found=A.show((c * c + s_ * s_).norm(), 6), where=where)
    good = False
    found = '(c, s) = (%s, %s)' % (A.show(c, 6), A.show(s_, 6))
    try:
        kx = (c * A.inv(dotab)).norm()
        if A.sign(kx) == 1 and A.eq(s_, perp * kx):
            good = True
    except ZeroDivisionError:
        pass
    run.ob(key + ':signed-angle', good, rule='K3 (C11 rule for n = 2)', expected='(cos, sin) = k (a.b, perp_dot(a,b)), k > 0: the signed counter-clockwise angle from a to b (clockwise when b is clockwise of a)',
           found=found, where=where)


def run(tier):
    run = Run(PROP, tier, 'other')
    specs.selfcheck()
    PAIR.clear()
    h = build()
    mono_ = h.monomorphise(['f32', 'f64'], bound='<S: BaseFloat>', kinds=None, method_syntax=True, soft=True)   # concrete scalar types, both spellings: what a user of f32 / f64 really gets
    S, inv, meta = facts.extract(PROP, h.src())
    report_dropped(run, meta, h)
    run_specs(run, S, h, custom={'qmat': c05.check_qmat, 'arc': check_arc, 'deleg': check_deleg, 'b2': check_b2})
    run.floor('roots', len(run.roots), len(h.specs))
    run.assumed.update(A.CTX.assumed)
    return run.finish(
        explanation='Quaternion::between_vectors and Quaternion::from_arc (symbolic optional fallback) are analysed leaf by leaf: the leaf reached when the same-direction test holds returns one(); the leaf reached when the antiparallel test holds returns a half turn (scalar part 0, resp. from_axis_angle with the half-turn constant) about the caller\'s fallback axis or about a unit axis w with w.a = 0 identically; the general leaf equals normalize((sqrt(|a|^2|b|^2) + a.b, a x b)) with the cross-product operand order checked. Basis3::between_vectors is shown leaf-by-leaf equal to Basis3::from of the quaternion. Basis2::between_vectors must be from_angle(theta) with theta the signed 2-D angle atan2(k perp_dot(a,b), k a.b). r(a) = b and the rotation angle follow from these forms.',
        trusted_base=['rustc nightly type checking / trait resolution / MIR construction', 'mirsum abstract interpreter', 'rules/algebra.py radical normal form', 'sin(pi/2) = 1, cos(pi/2) = 0 for the half-turn constant'],
        not_decided=['the 1e-7 / 1e-4 rad parallel / antiparallel tolerances', 'that the degenerate fallback axis is non-zero'],
        exhaustive=True)
