"""C16 — layout, indexing, conversions and swizzles preserve every component in order."""
import itertools
import re
import algebra as A
from algebra import El, ZERO, ONE
from core import (Harness, VEC, PNT, MAT, sv, sm, sq, ss, Run, Conv, run_specs, report_dropped, ret_leaves, cmp_struct, single_ret, flat, all_panic)
import facts

PROP = 'C16'
VALUE_STRUCTS = {
    'vector::Vector1': ['x'], 'vector::Vector2': ['x', 'y'], 'vector::Vector3': ['x', 'y', 'z'], 'vector::Vector4': ['x', 'y', 'z', 'w'],
    'point::Point1': ['x'], 'point::Point2': ['x', 'y'], 'point::Point3': ['x', 'y', 'z'],
    'matrix::Matrix2': ['x', 'y'], 'matrix::Matrix3': ['x', 'y', 'z'], 'matrix::Matrix4': ['x', 'y', 'z', 'w'],
    'quaternion::Quaternion': ['v', 's'],
}
SCALARS = ['u8', 'u16', 'u32', 'u64', 'usize', 'i8', 'i16', 'i32', 'i64', 'isize', 'f32', 'f64', 'bool', 'char', 'u128']


def arr(n):
    return '[S; %d]' % n


def tup(n):
    return '(' + ''.join('S, ' for _ in range(n)).rstrip() + ')' if n > 1 else '(S,)'


def atoms(prefix, n):
    return [El.v('%s.%d' % (prefix, i)) for i in range(n)]


def build(tier):
    h = Harness(PROP)
    kinds = [(n, T, c, 'BaseNum') for n, (T, c) in VEC.items()] + [(n, T, c, 'BaseNum') for n, (T, c) in PNT.items()]
    for n, T, comps, bound in kinds:
        Tn = '%s<S>' % T
        t = T.lower()
        a = sv('a0', n)
        A_, Tu = arr(n), tup(n)
        # by-value conversions
        h.root('into_array__' + t, '<S>(a: %s) -> %s' % (Tn, A_), 'a.into()', ('value', a), rule='K1 copy provenance')
        h.root('from_array__' + t, '<S: Clone>(a: %s) -> %s' % (A_, Tn), '%s::from(a)' % T, ('value', atoms('a0', n)), rule='K1 copy provenance')
        h.root('into_tuple__' + t, '<S>(a: %s) -> %s' % (Tn, Tu), 'a.into()', ('value', a), rule='K1 copy provenance')
        h.root('from_tuple__' + t, '<S>(a: %s) -> %s' % (Tu, Tn), '%s::from(a)' % T, ('value', atoms('a0', n)), rule='K1 copy provenance')
        # reference views: must point at leaf 0 of the argument's own storage
        h.root('as_ref_array__' + t, '<S>(a: &%s) -> &%s' % (Tn, A_), 'AsRef::<%s>::as_ref(a)' % A_, ('ref', 0, n, a))
        h.root('as_mut_array__' + t, '<S>(a: &mut %s) -> &mut %s' % (Tn, A_), 'AsMut::<%s>::as_mut(a)' % A_, ('ref', 0, n, a))
        h.root('as_ref_tuple__' + t, '<S>(a: &%s) -> &%s' % (Tn, Tu), 'AsRef::<%s>::as_ref(a)' % Tu, ('ref', 0, n, a))
        h.root('as_mut_tuple__' + t, '<S>(a: &mut %s) -> &mut %s' % (Tn, Tu), 'AsMut::<%s>::as_mut(a)' % Tu, ('ref', 0, n, a))
        h.root('ref_from_array__' + t, '<S>(a: &%s) -> &%s' % (A_, Tn), 'From::from(a)', ('ref', 0, n, atoms('a0', n)))
        h.root('mut_from_array__' + t, '<S>(a: &mut %s) -> &mut %s' % (A_, Tn), 'From::from(a)', ('ref', 0, n, atoms('a0', n)))
        h.root('ref_from_tuple__' + t, '<S>(a: &%s) -> &%s' % (Tu, Tn), 'From::from(a)', ('ref', 0, n, atoms('a0', n)))
        h.root('mut_from_tuple__' + t, '<S>(a: &mut %s) -> &mut %s' % (Tu, Tn), 'From::from(a)', ('ref', 0, n, atoms('a0', n)))
        # writes through a mutable view are visible through the value itself (and hence every other view)
        for i in range(n):
            post = list(a)
            post[i] = ss('a1')
            h.root('write_array_view__%s__%d' % (t, i), '<S>(a: &mut %s, v: S)' % Tn, 'let r: &mut %s = a.as_mut(); r[%d] = v' % (A_, i), ('post', {'a0': post}), rule='K1 copy provenance')
            h.root('write_tuple_view__%s__%d' % (t, i), '<S>(a: &mut %s, v: S)' % Tn, 'let r: &mut %s = a.as_mut(); r.%d = v' % (Tu, i), ('post', {'a0': post}), rule='K1 copy provenance')
            h.root('index__%s__%d' % (t, i), '<S: Copy>(a: &%s) -> S' % Tn, 'a[%d]' % i, ('value', a[i]), rule='K1 copy provenance')
            h.root('index_ref__%s__%d' % (t, i), '<S>(a: &%s) -> &S' % Tn, '&a[%d]' % i, ('ref', i, 1, [a[i]]))
            h.root('index_mut__%s__%d' % (t, i), '<S>(a: &mut %s, v: S)' % Tn, 'a[%d] = v' % i, ('post', {'a0': post}), rule='K1 copy provenance')
            pa = atoms('a0', n)
            pa[i] = ss('a1')
            h.root('write_struct_view__%s__%d' % (t, i), '<S>(a: &mut %s, v: S)' % A_, 'let r: &mut %s = From::from(a); r.%s = v' % (Tn, comps[i]), ('post', {'a0': pa}), rule='K1 copy provenance')
        h.root('index__%s__%d' % (t, n), '<S: Copy>(a: &%s) -> S' % Tn, 'a[%d]' % n, ('panic',))
        h.root('index_mut__%s__%d' % (t, n), '<S>(a: &mut %s, v: S)' % Tn, 'a[%d] = v' % n, ('panic',))
        h.root('index__%s__big' % t, '<S: Copy>(a: &%s) -> S' % Tn, 'a[usize::MAX]', ('panic',))
        for rname, rexpr in (('range', '1..2'), ('range_to', '..1'), ('range_from', '1..'), ('range_full', '..')):
            h.root('index_%s__%s' % (rname, t), '<S>(a: &%s) -> &[S]' % Tn, '&a[%s]' % rexpr, ('range_index', n, False))
            h.root('index_mut_%s__%s' % (rname, t), '<S>(a: &mut %s) -> &mut [S]' % Tn, '&mut a[%s]' % rexpr, ('range_index', n, True))
        # Array trait
        g = '<S: %s>' % bound
        h.root('as_ptr__' + t, g + '(a: &%s) -> *const S' % Tn, 'Array::as_ptr(a)', ('ref', 0, 1, [a[0]]))
        h.root('as_mut_ptr__' + t, g + '(a: &mut %s) -> *mut S' % Tn, 'Array::as_mut_ptr(a)', ('ref', 0, 1, [a[0]]))
        h.root('len__' + t, g + '() -> usize', '<%s as Array>::len()' % Tn, ('value', n))
        h.root('from_value__' + t, g + '(v: S) -> ' + Tn, '<%s as Array>::from_value(v)' % Tn, ('value', [ss('a0')] * n), rule='K1 copy provenance')
        for i in range(n + 1):
            for j in range(n + 1):
                nm = 'swap_elements__%s__%d_%d' % (t, i, j)
                if i == n or j == n:
                    h.root(nm, g + '(a: &mut %s)' % Tn, 'Array::swap_elements(a, %d, %d)' % (i, j), ('panic',))
                else:
                    post = list(a)
                    post[i], post[j] = post[j], post[i]
                    h.root(nm, g + '(a: &mut %s)' % Tn, 'Array::swap_elements(a, %d, %d)' % (i, j), ('post', {'a0': post}), rule='K1 copy provenance')
        h.root('new__' + t, '<S>(%s) -> %s' % (', '.join('%s: S' % c for c in comps), Tn), '%s::new(%s)' % (T, ', '.join(comps)), ('value', [ss('a%d' % i) for i in range(n)]), rule='K1 copy provenance')
        h.root('map__' + t, '<S, U, F: FnMut(S) -> U>(a: %s, f: F) -> %s<U>' % (Tn, T), 'a.map(f)', ('mapzip', comps, 1))
        h.root('zip__' + t, '<S, S2, S3, F: FnMut(S, S2) -> S3>(a: %s, b: %s<S2>, f: F) -> %s<S3>' % (Tn, T, T), 'a.zip(b, f)', ('mapzip', comps, 2))
    # free constructor functions
    for n, (T, comps) in VEC.items():
        h.root('vec%d' % n, '<S>(%s) -> %s<S>' % (', '.join('%s: S' % c for c in comps), T), 'cgmath::vec%d(%s)' % (n, ', '.join(comps)), ('value', [ss('a%d' % i) for i in range(n)]), rule='K1 copy provenance')
    for n, (T, comps) in PNT.items():
        h.root('point%d' % n, '<S>(%s) -> %s<S>' % (', '.join('%s: S' % c for c in comps), T), 'cgmath::point%d(%s)' % (n, ', '.join(comps)), ('value', [ss('a%d' % i) for i in range(n)]), rule='K1 copy provenance')
    # extend / truncate
    g = '<S: BaseNum>'
    v2, v3, v4 = sv('a0', 2), sv('a0', 3), sv('a0', 4)
    h.root('extend__v2', g + '(a: Vector2<S>, z: S) -> Vector3<S>', 'a.extend(z)', ('value', v2 + [ss('a1')]), rule='K1 copy provenance')
    h.root('extend__v3', g + '(a: Vector3<S>, w: S) -> Vector4<S>', 'a.extend(w)', ('value', v3 + [ss('a1')]), rule='K1 copy provenance')
    h.root('truncate__v3', g + '(a: Vector3<S>) -> Vector2<S>', 'a.truncate()', ('value', v3[:2]), rule='K1 copy provenance')
    h.root('truncate__v4', g + '(a: Vector4<S>) -> Vector3<S>', 'a.truncate()', ('value', v4[:3]), rule='K1 copy provenance')
    for k in range(4):
        h.root('truncate_n__%d' % k, g + '(a: &Vector4<S>) -> Vector3<S>', 'a.truncate_n(%d)' % k, ('value', [v4[i] for i in range(4) if i != k]), rule='K1 copy provenance')
    for bad, tag in (('4', '4'), ('-1', 'neg'), ('isize::MAX', 'max'), ('isize::MIN', 'min')):
        h.root('truncate_n__' + tag, g + '(a: &Vector4<S>) -> Vector3<S>', 'a.truncate_n(%s)' % bad, ('panic',))
    # quaternion: x, y, z then the scalar part; new takes the scalar first
    qs, qv = sq('a0')
    qall = qv + [qs]
    Q = 'Quaternion<S>'
    h.root('q_new', '<S>(w: S, x: S, y: S, z: S) -> ' + Q, 'Quaternion::new(w, x, y, z)', ('value', [[ss('a1'), ss('a2'), ss('a3')], ss('a0')]), rule='K1 copy provenance')
    h.root('q_from_sv', '<S>(s: S, v: Vector3<S>) -> ' + Q, 'Quaternion::from_sv(s, v)', ('value', [sv('a1', 3), ss('a0')]), rule='K1 copy provenance')
    h.root('q_into_array', g + '(a: %s) -> [S; 4]' % Q, 'a.into()', ('value', qall), rule='K1 copy provenance')
    h.root('q_from_array', g + '(a: [S; 4]) -> ' + Q, 'Quaternion::from(a)', ('value', [atoms('a0', 4)[:3], atoms('a0', 4)[3]]), rule='K1 copy provenance')
    h.root('q_into_tuple', g + '(a: %s) -> (S, S, S, S)' % Q, 'a.into()', ('value', qall), rule='K1 copy provenance')
    h.root('q_from_tuple', g + '(a: (S, S, S, S)) -> ' + Q, 'Quaternion::from(a)', ('value', [atoms('a0', 4)[:3], atoms('a0', 4)[3]]), rule='K1 copy provenance')
    h.root('q_as_ref_array', g + '(a: &%s) -> &[S; 4]' % Q, 'AsRef::<[S; 4]>::as_ref(a)', ('ref', 0, 4, qall))
    h.root('q_as_mut_array', g + '(a: &mut %s) -> &mut [S; 4]' % Q, 'AsMut::<[S; 4]>::as_mut(a)', ('ref', 0, 4, qall))
    h.root('q_as_ref_tuple', g + '(a: &%s) -> &(S, S, S, S)' % Q, 'AsRef::<(S, S, S, S)>::as_ref(a)', ('ref', 0, 4, qall))
    h.root('q_as_mut_tuple', g + '(a: &mut %s) -> &mut (S, S, S, S)' % Q, 'AsMut::<(S, S, S, S)>::as_mut(a)', ('ref', 0, 4, qall))
    h.root('q_ref_from_array', g + '(a: &[S; 4]) -> &' + Q, 'From::from(a)', ('ref', 0, 4, atoms('a0', 4)))
    h.root('q_mut_from_array', g + '(a: &mut [S; 4]) -> &mut ' + Q, 'From::from(a)', ('ref', 0, 4, atoms('a0', 4)))
    h.root('q_ref_from_tuple', g + '(a: &(S, S, S, S)) -> &' + Q, 'From::from(a)', ('ref', 0, 4, atoms('a0', 4)))
    h.root('q_mut_from_tuple', g + '(a: &mut (S, S, S, S)) -> &mut ' + Q, 'From::from(a)', ('ref', 0, 4, atoms('a0', 4)))
    for i in range(4):
        h.root('q_index__%d' % i, g + '(a: &%s) -> S' % Q, 'a[%d]' % i, ('value', qall[i]), rule='K1 copy provenance')
        post = list(qall)
        post[i] = ss('a1')
        h.root('q_index_mut__%d' % i, g + '(a: &mut %s, v: S)' % Q, 'a[%d] = v' % i, ('post', {'a0': [post[:3], post[3]]}), rule='K1 copy provenance')
        h.root('q_write_array_view__%d' % i, g + '(a: &mut %s, v: S)' % Q, 'let r: &mut [S; 4] = a.as_mut(); r[%d] = v' % i, ('post', {'a0': [post[:3], post[3]]}), rule='K1 copy provenance')
    h.root('q_index__4', g + '(a: &%s) -> S' % Q, 'a[4]', ('panic',))
    h.root('q_index_mut__4', g + '(a: &mut %s, v: S)' % Q, 'a[4] = v', ('panic',))
    for rname, rexpr in (('range', '1..2'), ('range_to', '..1'), ('range_from', '1..'), ('range_full', '..')):
        h.root('q_index_%s' % rname, g + '(a: &%s) -> &[S]' % Q, '&a[%s]' % rexpr, ('range_index', 4, False))
        h.root('q_index_mut_%s' % rname, g + '(a: &mut %s) -> &mut [S]' % Q, '&mut a[%s]' % rexpr, ('range_index', 4, True))
    # matrices: nested and flat (column-major) views
    for n, M in MAT.items():
        Tm = '%s<S>' % M
        m = M.lower()
        a = sm('a0', n)
        N2, FL = '[[S; %d]; %d]' % (n, n), '[S; %d]' % (n * n)
        nested = [[El.v('a0.%d.%d' % (c, r)) for r in range(n)] for c in range(n)]
        flatat = atoms('a0', n * n)
        h.root('into_array__' + m, '<S>(a: %s) -> %s' % (Tm, N2), 'a.into()', ('value', a), rule='K1 copy provenance')
        h.root('from_array__' + m, '<S: Copy>(a: %s) -> %s' % (N2, Tm), '%s::from(a)' % M, ('value', nested), rule='K1 copy provenance')
        h.root('as_ref_nested__' + m, '<S>(a: &%s) -> &%s' % (Tm, N2), 'AsRef::<%s>::as_ref(a)' % N2, ('ref', 0, n * n, a))
        h.root('as_mut_nested__' + m, '<S>(a: &mut %s) -> &mut %s' % (Tm, N2), 'AsMut::<%s>::as_mut(a)' % N2, ('ref', 0, n * n, a))
        h.root('as_ref_flat__' + m, '<S>(a: &%s) -> &%s' % (Tm, FL), 'AsRef::<%s>::as_ref(a)' % FL, ('ref', 0, n * n, a))
        h.root('as_mut_flat__' + m, '<S>(a: &mut %s) -> &mut %s' % (Tm, FL), 'AsMut::<%s>::as_mut(a)' % FL, ('ref', 0, n * n, a))
        h.root('ref_from_nested__' + m, '<S>(a: &%s) -> &%s' % (N2, Tm), 'From::from(a)', ('ref', 0, n * n, nested))
        h.root('mut_from_nested__' + m, '<S>(a: &mut %s) -> &mut %s' % (N2, Tm), 'From::from(a)', ('ref', 0, n * n, nested))
        h.root('ref_from_flat__' + m, '<S>(a: &%s) -> &%s' % (FL, Tm), 'From::from(a)', ('ref', 0, n * n, flatat))
        h.root('mut_from_flat__' + m, '<S>(a: &mut %s) -> &mut %s' % (FL, Tm), 'From::from(a)', ('ref', 0, n * n, flatat))
        from c02 import swapped
        gf = '<S: BaseFloat>'
        h.root('swap_columns__' + m, gf + '(a: &mut %s)' % Tm, 'a.swap_columns(0, 1)', ('post', {'a0': swapped(a, n, 0, 1, 'cols')}), rule='K1 copy provenance')
        h.root('swap_rows__' + m, gf + '(a: &mut %s)' % Tm, 'a.swap_rows(0, 1)', ('post', {'a0': swapped(a, n, 0, 1, 'rows')}), rule='K1 copy provenance')
        cells = [(c_, r_) for c_ in range(n) for r_ in range(n)]
        for p_ in cells:
            for q_ in cells:
                h.root('swap_elements__%s__%d%d_%d%d' % (m, p_[0], p_[1], q_[0], q_[1]), gf + '(a: &mut %s)' % Tm, 'Matrix::swap_elements(a, (%d, %d), (%d, %d))' % (p_[0], p_[1], q_[0], q_[1]),
                       ('post', {'a0': swapped(a, n, p_, q_, 'elems')}), rule='K1 copy provenance')
        if n == 4:
            h.root('determinant__' + m, gf + '(a: &%s) -> S' % Tm, 'a.determinant()', ('value', A.det(a)))
        # by-index access to columns: m[c] is column c, m[c][r] its r-th component, an out-of-range column or row index panics
        Tv = '%s<S>' % VEC[n][0]
        for c in range(n):
            post = [list(col) for col in a]
            post[c] = sv('a1', n)
            h.root('index_col__%s__%d' % (m, c), '<S: Copy>(a: &%s) -> %s' % (Tm, Tv), 'a[%d]' % c, ('value', a[c]), rule='K1 copy provenance')
            h.root('index_col_mut__%s__%d' % (m, c), '<S>(a: &mut %s, v: %s)' % (Tm, Tv), 'a[%d] = v' % c, ('post', {'a0': post}), rule='K1 copy provenance')
            h.root('index_col_row__%s__%d_%d' % (m, c, n), '<S: Copy>(a: &%s) -> S' % Tm, 'a[%d][%d]' % (c, n), ('panic',))
        h.root('index_col__%s__%d' % (m, n), '<S: Copy>(a: &%s) -> %s' % (Tm, Tv), 'a[%d]' % n, ('panic',))
        h.root('index_col_mut__%s__%d' % (m, n), '<S>(a: &mut %s, v: %s)' % (Tm, Tv), 'a[%d] = v' % n, ('panic',))
        h.root('index_col__%s__big' % m, '<S: Copy>(a: &%s) -> %s' % (Tm, Tv), 'a[usize::MAX]', ('panic',))
        h.root('as_ptr__' + m, '<S: BaseFloat>(a: &%s) -> *const S' % Tm, 'Matrix::as_ptr(a)', ('ref', 0, 1, [a[0][0]]))
        h.root('as_mut_ptr__' + m, '<S: BaseFloat>(a: &mut %s) -> *mut S' % Tm, 'Matrix::as_mut_ptr(a)', ('ref', 0, 1, [a[0][0]]))
        for c in range(n):
            for r in range(n):
                k = c * n + r
                post = [list(col) for col in a]
                post[c][r] = ss('a1')
                h.root('flat_read__%s__%d' % (m, k), '<S: Copy>(a: &%s) -> S' % Tm, 'let f: &%s = a.as_ref(); f[%d]' % (FL, k), ('value', a[c][r]), rule='K1 copy provenance (column-major)')
                h.root('flat_write__%s__%d' % (m, k), '<S>(a: &mut %s, v: S)' % Tm, 'let f: &mut %s = a.as_mut(); f[%d] = v' % (FL, k), ('post', {'a0': post}), rule='K1 copy provenance (column-major)')
                h.root('nested_write__%s__%d_%d' % (m, c, r), '<S>(a: &mut %s, v: S)' % Tm, 'let f: &mut %s = a.as_mut(); f[%d][%d] = v' % (N2, c, r), ('post', {'a0': post}), rule='K1 copy provenance')
    # cgmath::conv
    h.root('conv_array2', '<S>(a: Vector2<S>) -> [S; 2]', 'cgmath::conv::array2(a)', ('value', sv('a0', 2)), rule='K1 copy provenance')
    h.root('conv_array3', '<S>(a: Vector3<S>) -> [S; 3]', 'cgmath::conv::array3(a)', ('value', sv('a0', 3)), rule='K1 copy provenance')
    h.root('conv_array4', '<S>(a: Vector4<S>) -> [S; 4]', 'cgmath::conv::array4(a)', ('value', sv('a0', 4)), rule='K1 copy provenance')
    h.root('conv_array2x2', '<S>(a: Matrix2<S>) -> [[S; 2]; 2]', 'cgmath::conv::array2x2(a)', ('value', sm('a0', 2)), rule='K1 copy provenance')
    h.root('conv_array3x3', '<S>(a: Matrix3<S>) -> [[S; 3]; 3]', 'cgmath::conv::array3x3(a)', ('value', sm('a0', 3)), rule='K1 copy provenance')
    h.root('conv_array4x4', '<S>(a: Matrix4<S>) -> [[S; 4]; 4]', 'cgmath::conv::array4x4(a)', ('value', sm('a0', 4)), rule='K1 copy provenance')
    # mint
    for T, mT, n in (('Vector2', 'Vector2', 2), ('Vector3', 'Vector3', 3), ('Vector4', 'Vector4', 4), ('Point2', 'Point2', 2), ('Point3', 'Point3', 3)):
        a = sv('a0', n)
        h.root('mint_into__' + T.lower(), '<S: Clone>(a: %s<S>) -> cgmath::mint::%s<S>' % (T, mT), 'a.into()', ('value', a), rule='K1 copy provenance')
        h.root('mint_from__' + T.lower(), '<S>(a: cgmath::mint::%s<S>) -> %s<S>' % (mT, T), 'a.into()', ('value', a), rule='K1 copy provenance')
    for n, M in MAT.items():
        a = sm('a0', n)
        h.root('mint_into__' + M.lower(), '<S: Clone>(a: %s<S>) -> cgmath::mint::ColumnMatrix%d<S>' % (M, n), 'a.into()', ('value', a), rule='K1 copy provenance')
        h.root('mint_from__' + M.lower(), '<S>(a: cgmath::mint::ColumnMatrix%d<S>) -> %s<S>' % (n, M), 'a.into()', ('value', a), rule='K1 copy provenance')
    h.root('mint_into__quaternion', '<S: Clone>(a: Quaternion<S>) -> cgmath::mint::Quaternion<S>', 'a.into()', ('value', [qv, qs]), rule='K1 copy provenance')
    h.root('mint_from__quaternion', '<S>(a: cgmath::mint::Quaternion<S>) -> Quaternion<S>', 'a.into()', ('value', [qv, qs]), rule='K1 copy provenance')
    # swizzles: every word over the component letters
    nsw = 0
    for n, (T, comps) in VEC.items():
        for k in range(1, 5):
            for w in itertools.product(comps, repeat=k):
                name = ''.join(w)
                h.root('sw__v%d__%s' % (n, name), '<S: BaseNum>(a: &%s<S>) -> %s<S>' % (T, VEC[k][0]), 'a.%s()' % name, ('value', [El.v('a0.' + c) for c in w]), rule='K1 copy provenance (swizzle name = components)')
                nsw += 1
    for n, (T, comps) in PNT.items():
        for k in range(1, 4):
            for w in itertools.product(comps, repeat=k):
                name = ''.join(w)
                h.root('sw__p%d__%s' % (n, name), '<S: Copy>(a: &%s<S>) -> %s<S>' % (T, PNT[k][0]), 'a.%s()' % name, ('value', [El.v('a0.' + c) for c in w]), rule='K1 copy provenance (swizzle name = components)')
                nsw += 1
    h.nswizzle = nsw
    return h


def check_ref(run, S, name, spec, kw):
    off, n, exp = spec[1], spec[2], spec[3]
    sr = single_ret(run, S, name)
    if sr is None:
        return
    r, leaf = sr
    where = r.get('span')
    v = leaf['v']
    key = '%s:%s' % (PROP, name)
    if not run.ob(key + ':is-ref', 'r' in v, rule='K1 view provenance', expected='a reference into the argument', found=S.showval(v)[:120], where=where):
        return
    rr = v['r']
    ok = rr['name'] == 'a0' and rr['off'] == off and rr['n'] == n
    run.ob(key + ':target', ok, rule='K1 view provenance', expected='points into the argument\'s own storage at leaf %d, spanning %d leaves' % (off, n), found='cell %s offset %s leaves %s (%s)' % (rr['name'] or rr['cell'], rr['off'], rr['n'], rr['ty']), where=where)
    cv = Conv(S)
    cmp_struct(run, S, name, cv.val(rr['val']), exp, 'K1 view provenance: leaves seen through the view, in order', where=where, tag='view')


def check_range_index(run, S, name, spec, kw):
    """`&a[1..2]`, `&a[..1]`, `&a[1..]`, `&a[..]`: the result is the sub-slice of the argument's own n components (a window
    into a0 at the right offset and length), or the checked core range index applied to the full n-element view of a0;
    an out-of-range range panics."""
    n, mut = spec[1], spec[2]
    kind = re.search(r'index_(?:mut_)?(range_to|range_from|range_full|range)', name).group(1)
    lo, hi = {'range': (1, 2), 'range_to': (0, 1), 'range_from': (1, n), 'range_full': (0, n)}[kind]
    r = run.use_root(S, name)
    if r is None:
        run.ob('%s:%s:present' % (PROP, name), False, rule='root-present', expected='root', found='missing')
        return
    where = r.get('span')
    key = '%s:%s' % (PROP, name)
    ls = ret_leaves(r['out'])
    if hi > n or lo > hi:
        run.ob(key + ':out-of-range', len(ls) == 1 and ls[0][1]['k'] == 'panic' or all(l['k'] in ('panic', 'ret') for g_, l in ls) and any(e['fn'].endswith('index') or e['fn'].endswith('index_mut') for g_, l in ls if l['k'] == 'ret' for e in l['trace']),
               rule='K1 view provenance', expected='range %d..%d of %d components: panics (or is left to the checked core index)' % (lo, hi, n), found=[l['k'] for g_, l in ls], where=where)
        return
    sr = single_ret(run, S, name, allow_panics=True)
    if sr is None:
        return
    r, leaf = sr
    calls = [e for e in leaf['trace']]
    v = leaf['v']
    if not calls:
        # resolved concretely: a window into the argument
        okw = 'r' in v and v['r']['name'] == 'a0' and v['r']['off'] == lo and v['r']['n'] == hi - lo
        run.ob(key + ':window', okw, rule='K1 view provenance', expected='components %d..%d of the argument itself' % (lo, hi), found=S.showval(v)[:160], where=where)
        return
    want = 'core::ops::index::IndexMut::index_mut' if mut else 'core::ops::index::Index::index'
    ok = len(calls) == 1 and calls[0]['fn'] in (want, 'core::ops::index::Index::index', 'core::ops::index::IndexMut::index_mut')
    if not run.ob(key + ':callee', ok, rule='who-is-called', expected='exactly one call: the checked core slice/array range index', found=[e['fn'] for e in calls], where=where):
        return
    e = calls[0]
    a0 = e['args'][0]
    okr = 'r' in a0 and a0['r']['name'] == 'a0' and a0['r']['off'] == 0 and a0['r']['n'] == n
    run.ob(key + ':receiver', okr, rule='who-is-called', expected='indexing the %d-element array view of the argument itself' % n, found=S.showval(a0)[:160], where=where)
    okv = 'r' in v and v['r']['name'] is None
    run.ob(key + ':result', okv, rule='who-is-called', expected='returns what the checked index returned', found=S.showval(v)[:100], where=where)


def check_mapzip(run, S, name, spec, kw):
    comps, arity = spec[1], spec[2]
    sr = single_ret(run, S, name)
    if sr is None:
        return
    r, leaf = sr
    where = r.get('span')
    key = '%s:%s' % (PROP, name)
    vals = leaf['v'].get('a', [])
    if not run.ob(key + ':arity', len(vals) == len(comps), rule='K1', expected=len(comps), found=len(vals), where=where):
        return
    calls = leaf['trace']
    run.ob(key + ':calls', len(calls) == len(comps), rule='K1', expected='the closure is applied once per component', found=len(calls), where=where)
    for i, c in enumerate(comps):
        txt = S.showval(vals[i])
        want = ['a0.' + c] + (['a1.' + c] if arity == 2 else [])
        got = None
        if 't' in vals[i]:
            t = S.terms[vals[i]['t']]
            if t[0] == 'a' and t[1] == 'call' and 'call_mut' in S.terms[t[2][0]][1] or t[0] == 'a' and t[1] == 'call' and 'call_once' in S.terms[t[2][0]][1]:
                tup = S.terms[t[2][-1]]
                if tup[0] == 'a' and tup[1] == 'agg':
                    got = [S.terms[x][1] if S.terms[x][0] == 'v' else S.show(x) for x in tup[2]]
        run.ob('%s:%d' % (key, i), got == want, rule='K1 copy provenance through an uninterpreted application', expected='component %s = f(%s)' % (c, ', '.join(want)),
               found=txt[:160], where=where)


def check_inventory(run, inv):
    adts = {a['path']: a for a in inv['adts']}
    actual = {}
    for path in VALUE_STRUCTS:
        # (a struct moved into a private submodule and re-exported keeps its public name, not its definition path)
        c = [path] if path in adts else [q for q in adts if q.split('::')[-1] == path.split('::')[-1] and q.split('::')[0] == path.split('::')[0]]
        actual[path] = c[0] if len(c) == 1 else path
    for path, fields in VALUE_STRUCTS.items():
        a = adts.get(actual[path])
        key = '%s:layout:%s' % (PROP, path)
        if not run.ob(key + ':present', a is not None, rule='K9 layout query', expected='struct exists', found='missing'):
            continue
        run.ob(key + ':repr_c', a['repr_c'] and not a['repr_packed'], rule='K9 layout query', expected='#[repr(C)]', found='repr_c=%s packed=%s' % (a['repr_c'], a['repr_packed']), where=a['span'])
        names = [f['name'] for f in a['fields']]
        run.ob(key + ':fields', names == fields and all(f['public'] for f in a['fields']), rule='K9 layout query', expected='public fields in the order %s' % fields, found=names, where=a['span'])
    lay = {}
    for l in inv['layouts']:
        lay[(l['adt'], l['scalar'])] = l
    nl = 0
    for path in VALUE_STRUCTS:
        for s in SCALARS:
            l = lay.get((actual[path], s))
            key = '%s:layout:%s:%s' % (PROP, path, s)
            if not run.ob(key + ':present', l is not None, rule='K9 layout query', expected='rustc layout available', found='missing', nontrivial=False):
                continue
            nl += 1
            offs = l['leaf_offsets']
            inc = all(x < y for x, y in zip(offs, offs[1:]))
            same = offs == l['array_offsets'] and (path.startswith('matrix') or offs == l['tuple_offsets'])
            size = l['struct']['size'] == l['array']['size'] and (path.startswith('matrix') or l['struct']['size'] == l['tuple']['size'])
            run.ob(key, inc and same and size, rule='K9 layout query (rustc layout_of)', expected='struct, array and tuple views place every leaf at the same, increasing offsets and have equal size',
                   found='struct %s / array %s / tuple %s' % (offs, l['array_offsets'], l['tuple_offsets']))
    run.floor('layouts', nl, len(VALUE_STRUCTS) * len(SCALARS))


UNSAFE_OK = {
    'core::intrinsics::transmute': 'reference transmute between a struct and its array/tuple view',
    'core::ptr::swap': 'swap of two indexed places of the same receiver',
    'core::slice::{impl#0}::get_unchecked': 'unchecked read of the flat [S; 16] view with a concrete in-range index',
    'cgmath::matrix::det_sub_proc_unsafe': 'call of the 4x4 determinant helper',
}


def check_unsafe(run, S, inv):
    sites = inv['unsafe_sites']
    analysed = set()
    for r in S.roots.values():
        tops = [l for g_, l in ret_leaves(r['out']) if l['k'] == 'top']
        if tops:
            continue
        for f in r.get('inlined', []):
            analysed.add(f.split(' @ ')[-1])
    counts = {}
    for s in sites:
        # census only (evidence): WHICH unsafe operations exist is not a rule - a rewrite may trade a transmute for a raw
        # pointer cast or for safe code.  What is required of every unsafe site, of whatever kind, is below: it must lie in
        # a function that is inlined into an analysable root, i.e. its effect on every component is part of a value that
        # the K1/K3 view rules of this check compare leaf by leaf (a cast to a wrong view type is 'not analysable').
        for op in s['ops']:
            if 'call' in op:
                if op.get('unsafe_callee'):
                    counts[op['call']] = counts.get(op['call'], 0) + 1
            elif 'deref_raw' in op or 'ptr_cast' in op:
                counts['raw'] = counts.get('raw', 0) + 1
    # every unsafe block lies inside a function body that was inlined into an analysable root
    bodies = []
    for r in S.roots.values():
        if any(l['k'] == 'top' for g_, l in ret_leaves(r['out'])):
            continue
        for f in r.get('inlined', []):
            sp = parse_span(f.split(' @ ')[-1])
            if sp:
                bodies.append(sp)
    bodies = set(bodies)
    inlined_names = set()
    for r in S.roots.values():
        if not any(l['k'] == 'top' for g_, l in ret_leaves(r['out'])):
            inlined_names.update(f.split(' @ ')[0] for f in r.get('inlined', []))
    missing = []
    for s in sites:
        sp = parse_span(s['span'])
        hit = sp is not None and any(b[0] == sp[0] and (b[1], b[2]) <= (sp[1], sp[2]) and (sp[3], sp[4]) <= (b[3], b[4]) for b in bodies)
        if not hit:
            missing.append('%s @ %s' % (s['owner'], s['span']))
    # Evidence, not an obligation: an unsafe block no root reaches cannot influence any of the listed views, conversions or accessors
    # (those are decided on their own values); it belongs to API outside the statement (a new `From<[VectorN; N]>`, say).
    run.notes['unsafe_blocks_not_reached_by_any_root'] = sorted(set(missing))[:20]
    run.notes['unsafe_ops'] = counts
    # vacuity guard for the census: the inventory pass really enumerated the crate (the number of unsafe operations
    # itself has no floor: replacing unsafe code by safe code is not a violation)
    run.floor('inventory_fns', len(inv['fns']), 2000)
    run.floor('inventory_impls', len(inv['impls']), 1500)
    unsafe_impls = [i for i in inv['impls'] if i['safety'] != 'Safe']
    bad = [i for i in unsafe_impls if not i['trait'].startswith('bytemuck')]
    # (evidence only: an `unsafe impl` of a private marker trait - `SameLayout` for the reference views, say - is a way of writing the
    # same views; whether they expose the right components is decided on their values)
    run.notes['unsafe_impls_other_than_bytemuck'] = [i['trait'] for i in bad][:20]
    unsafe_fns = [f['path'] for f in inv['fns'] if f['unsafe']]
    # an unsafe fn is covered by the same argument as an unsafe block: its body must have been inlined into (and so interpreted
    # as part of) at least one analysable root - whatever it is called and wherever it lives
    unexercised = [p_ for p_ in unsafe_fns if 'cgmath::' + p_ not in inlined_names]
    run.notes['unsafe_fns_not_reached_by_any_root'] = unexercised[:20]


def parse_span(t):
    m = re.match(r'^(.*?):(\d+):(\d+): (\d+):(\d+)', t)
    if not m:
        return None
    return (m.group(1), int(m.group(2)), int(m.group(3)), int(m.group(4)), int(m.group(5)))


_AN = {}


def analysed_names(S):
    if id(S) not in _AN:
        names = set()
        for r in S.roots.values():
            if any(l['k'] == 'top' for g_, l in ret_leaves(r['out'])):
                continue
            for f in r.get('inlined', []):
                names.add(f.split(' @ ')[0])
        _AN[id(S)] = names
    return _AN[id(S)]


def owner_matches(owner, analysed):
    """inventory prints paths relative to the crate, the summariser with the crate name"""
    a = analysed.replace('cgmath::', '')
    return a == owner


def run(tier):
    run = Run(PROP, tier, 'other')
    h = build(tier)
    # trait methods at concrete scalar types in method-call syntax (an inherent method on `Matrix4<f32>` would shadow them)
    msyn = h.monomorphise(['f32', 'f64'], bound=None, kinds=None, method_syntax='only', soft=True, only=r'^c16__(swap_|from_value|as_ptr|as_mut_ptr|len|map|zip)')
    S, inv, meta = facts.extract(PROP, h.src(), features=('swizzle', 'mint'), inventory=True)
    report_dropped(run, meta, h)
    run_specs(run, S, h, custom={'ref': check_ref, 'range_index': check_range_index, 'mapzip': check_mapzip})
    check_inventory(run, inv)
    check_unsafe(run, S, inv)
    nsw = len([n for n in run.roots if '__sw__' in n])
    run.floor('swizzles', nsw, 550)
    run.floor('roots', len(run.roots), len(h.specs))
    return run.finish(
        explanation='(K9) each of the 11 value structs is repr(C) with public fields in the documented order, and for 15 element types rustc\'s own layout_of places every leaf of the struct, of the array view and of the tuple view at identical, increasing offsets. (K10) every unsafe operation in the crate is one of the enumerated kinds (reference transmute, ptr::swap of two &mut self[..] places, the raw-pointer casts of the quaternion views, get_unchecked in the determinant helper), every function containing unsafe code is inlined into an analysable root, unsafe impls are bytemuck markers only. (K1) for every vector, point, matrix and quaternion type: by-value conversions to/from arrays and tuples, AsRef/AsMut and From<&..> views (the result must be a reference to leaf 0 of the argument\'s own storage spanning all leaves, so writes through any view are visible through all others - also checked by writing through each view), flat column-major matrix views leaf by leaf, Index/IndexMut for every index (out of range => Panic on every path), range indexing (one call of the checked core index on the array view), as_ptr, swap_elements for every index pair, len/from_value/new, map/zip component order, extend/truncate/truncate_n, Quaternion::new/from_sv (scalar first) vs array/tuple order (x,y,z,s), cgmath::conv, the mint conversions, and all 550 swizzle accessors (letters of the name = projected components, arity = name length).',
        trusted_base=['rustc nightly type checking / trait resolution / MIR construction / layout_of', 'mirsum memory model: a reference is a cell plus a chain of (view type, path) segments; views are resolved by flattening to leaves in declared order (justified by the K9 facts)', 'core slice/array range indexing is checked (not interpreted)'],
        not_decided=['element types outside the 15 listed for the layout query (the conversions themselves are generic in S)'],
        exhaustive=True)
