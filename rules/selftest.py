"""Self-test of the checker (thorough tier): mutants must fire with the expected key, refactors must stay silent.

Each case is applied to a scratch copy of the CURRENT /repo and analysed by the owning property's quick rules in a
child process (VERIF_REPO / VERIF_EVIDENCE_DIR / VERIF_OUT_DIR redirected).  Nothing is executed from cgmath.
A mutant that is not flagged is a sensitivity gap of the checker (reported in the evidence, exit code unchanged);
a refactor that is flagged is a false alarm of the checker (reported likewise)."""
import json
import os
import re
import shutil
import subprocess
import tempfile
from concurrent.futures import ThreadPoolExecutor

VERIF = os.path.dirname(os.path.dirname(os.path.abspath(__file__)))
REPO = os.environ.get('VERIF_REPO', '/repo')


def _one(case):
    work = tempfile.mkdtemp(prefix='selftest-')
    try:
        repo = os.path.join(work, 'repo')
        subprocess.run(['rsync', '-a', '--exclude', 'target', '--exclude', '.git', REPO + '/', repo + '/'], check=True)
        if 'patch' in case:
            pr = subprocess.run(['git', 'apply', '--unsafe-paths', '--directory', repo, case['patch']], capture_output=True, text=True, cwd=work)
            if pr.returncode != 0:
                pr = subprocess.run(['patch', '-p1', '-s', '-i', case['patch']], capture_output=True, text=True, cwd=repo)
                if pr.returncode != 0:
                    return dict(case, status='skipped', why='patch no longer applies')
        else:
            path = os.path.join(repo, case['file'])
            src = open(path).read()
            ms = list(re.finditer(case['find'], src))
            if len(ms) <= case.get('nth', 0):
                return dict(case, status='skipped', why='pattern no longer matches')
            m = ms[case.get('nth', 0)]
            open(path, 'w').write(src[:m.start()] + m.expand(case['replace']) + src[m.end():])
        env = dict(os.environ, VERIF_REPO=repo, VERIF_EVIDENCE_DIR=os.path.join(work, 'ev'), VERIF_OUT_DIR=os.path.join(work, 'out'), VERIF_NOCACHE='0', VERIF_SELFTEST_CHILD='1')
        p = subprocess.run([os.path.join(VERIF, 'check'), case['property'], 'quick'], env=env, capture_output=True, text=True, timeout=900)
        keys = re.findall(r'key=(\S+)', p.stdout)
        if 'CHECK-ERROR' in p.stdout:
            return dict(case, status='skipped', why='variant does not compile')
        return dict(case, status='ran', exit=p.returncode, keys=keys[:8])
    finally:
        shutil.rmtree(work, ignore_errors=True)


def run_corpus(prop):
    if os.environ.get('VERIF_SELFTEST_CHILD'):
        return None
    path = os.path.join(VERIF, 'selftest', 'corpus.json')
    if not os.path.exists(path):
        return None
    corpus = [c for c in json.load(open(path)) if c['property'] == prop]
    # the seeded changes of the sub-agents (must be flagged) and their behaviour-preserving refactorings (must stay silent)
    import glob
    for d in sorted(glob.glob(os.path.join(VERIF, 'seeded', prop + '-*'))):
        if os.path.exists(os.path.join(d, 'patch.diff')):
            doc = None
            try:
                doc = json.load(open(os.path.join(d, 'meta.json'))).get('documented_gap')
            except (OSError, ValueError):
                pass
            corpus.append({'kind': 'mutant', 'property': prop, 'id': 'seed:' + os.path.basename(d), 'patch': os.path.join(d, 'patch.diff'), 'expect': None, 'documented_gap': doc})
    for d in sorted(glob.glob(os.path.join(VERIF, 'refactors', '*'))):
        mp = os.path.join(d, 'meta.json')
        if not os.path.exists(mp):
            continue
        meta = json.load(open(mp))
        if meta.get('property') == prop or prop in meta.get('recheck', []):
            if meta.get('known_imprecision', {}).get(prop):
                continue
            corpus.append({'kind': 'refactor', 'property': prop, 'id': 'ref:' + os.path.basename(d), 'patch': os.path.join(d, 'patch.diff')})
    if not corpus:
        return None
    with ThreadPoolExecutor(max_workers=8) as ex:
        res = list(ex.map(_one, corpus))
    out = {'mutants': 0, 'mutants_flagged': 0, 'refactors': 0, 'refactors_silent': 0, 'skipped': 0, 'gaps': [], 'false_alarms': []}
    for r in res:
        if r['status'] == 'skipped':
            out['skipped'] += 1
            out.setdefault('skipped_cases', []).append({'id': r['id'], 'why': r.get('why')})
            continue
        if r['kind'] == 'mutant':
            out['mutants'] += 1
            hit = r['exit'] == 1 and (not r.get('expect') or any(r['expect'] in k for k in r['keys']))
            if hit:
                out['mutants_flagged'] += 1
            else:
                out['gaps'].append({'id': r['id'], 'exit': r['exit'], 'keys': r['keys'][:3], **({'documented': r['documented_gap']} if r.get('documented_gap') else {})})
        else:
            out['refactors'] += 1
            if r['exit'] == 0:
                out['refactors_silent'] += 1
            else:
                out['false_alarms'].append({'id': r['id'], 'keys': r['keys'][:3]})
    return out
