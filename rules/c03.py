"""C03 — vectors form an inner-product space; cross and perp-dot are exact (DESIGN §7 C03)."""
import algebra as A
from algebra import El, ZERO, ONE
import core
from core import Harness, VEC, sv, ss, check_value, Run, Conv, single_ret, bool_conjunction
import facts

PROP = 'C03'
OPS = {'add': '+', 'sub': '-', 'mul': '*', 'div': '/', 'rem': '%'}


def opf(op, a, b):
    if op == 'add':
        return a + b
    if op == 'sub':
        return a - b
    if op == 'mul':
        return a * b
    if op == 'div':
        return A.fn('idiv', a, b)      # S: BaseNum may be an integer type: x / s is not x * (1/s)
    if op == 'rem':
        return A.fn('rem', a, b)
    raise KeyError(op)


def build():
    h = Harness(PROP)
    for n, (T, comps) in VEC.items():
        Tn = '%s<S>' % T
        g = '<S: BaseNum>'
        a, b, s = sv('a0', n), sv('a1', n), ss('a1')
        v = 'v%d' % n
        # vector (+,-) vector in the four operand forms
        for op in ('add', 'sub'):
            exp = [opf(op, x, y) for x, y in zip(a, b)]
            for form, la, lb, ea, eb in (('vv', Tn, Tn, 'a', 'b'), ('vr', Tn, '&' + Tn, 'a', 'b'), ('rv', '&' + Tn, Tn, 'a', 'b'), ('rr', '&' + Tn, '&' + Tn, 'a', 'b')):
                h.root('%s__%s__%s' % (op, v, form), '%s(a: %s, b: %s) -> %s' % (g, la, lb, Tn), '%s %s %s' % (ea, OPS[op], eb), ('value', exp))
            h.root('%s_assign__%s' % (op, v), '%s(a: &mut %s, b: %s)' % (g, Tn, Tn), '*a %s= b' % OPS[op], ('post', {'a0': exp}))
        # vector (*,/,%) scalar
        for op in ('mul', 'div', 'rem'):
            exp = [opf(op, x, s) for x in a]
            h.root('%s_s__%s__v' % (op, v), '%s(a: %s, b: S) -> %s' % (g, Tn, Tn), 'a %s b' % OPS[op], ('value', exp))
            h.root('%s_s__%s__r' % (op, v), '%s(a: &%s, b: S) -> %s' % (g, Tn, Tn), 'a %s b' % OPS[op], ('value', exp))
            h.root('%s_s_assign__%s' % (op, v), '%s(a: &mut %s, b: S)' % (g, Tn), '*a %s= b' % OPS[op], ('post', {'a0': exp}))
        h.root('neg__%s' % v, '<S: BaseNum + Neg<Output = S>>(a: %s) -> %s' % (Tn, Tn), '-a', ('value', [-x for x in a]))
        # element-wise
        for op in OPS:
            exp = [opf(op, x, y) for x, y in zip(a, b)]
            h.root('%s_ew__%s' % (op, v), '%s(a: %s, b: %s) -> %s' % (g, Tn, Tn, Tn), 'ElementWise::%s_element_wise(a, b)' % op, ('value', exp))
            h.root('%s_assign_ew__%s' % (op, v), '%s(a: &mut %s, b: %s)' % (g, Tn, Tn), 'ElementWise::%s_assign_element_wise(a, b)' % op, ('post', {'a0': exp}))
            exps = [opf(op, x, s) for x in a]
            h.root('%s_ews__%s' % (op, v), '%s(a: %s, b: S) -> %s' % (g, Tn, Tn), 'ElementWise::<S>::%s_element_wise(a, b)' % op, ('value', exps))
            h.root('%s_assign_ews__%s' % (op, v), '%s(a: &mut %s, b: S)' % (g, Tn), 'ElementWise::<S>::%s_assign_element_wise(a, b)' % op, ('post', {'a0': exps}))
        # zero, from_value, sum, product
        h.root('zero__%s' % v, '%s() -> %s' % (g, Tn), '<%s as Zero>::zero()' % Tn, ('value', [ZERO] * n))
        h.root('is_zero__%s' % v, '%s(a: &%s) -> bool' % (g, Tn), 'a.is_zero()', ('conj_eq_zero', n))
        h.root('from_value__%s' % v, '%s(a: S) -> %s' % (g, Tn), '<%s as Array>::from_value(a)' % Tn, ('value', [ss('a0')] * n))
        h.root('sum__%s' % v, '%s(a: %s) -> S' % (g, Tn), 'Array::sum(a)', ('value', sum(a, ZERO)))
        prod = ONE
        for x in a:
            prod = prod * x
        h.root('product__%s' % v, '%s(a: %s) -> S' % (g, Tn), 'Array::product(a)', ('value', prod))
        # inner product
        d = A.dot(a, b)
        h.root('dot__%s' % v, '%s(a: %s, b: %s) -> S' % (g, Tn, Tn), 'InnerSpace::dot(a, b)', ('value', d))
        h.root('dot_free__%s' % v, '%s(a: %s, b: %s) -> S' % (g, Tn, Tn), 'cgmath::dot(a, b)', ('value', d))
        h.root('magnitude2__%s' % v, '%s(a: %s) -> S' % (g, Tn), 'InnerSpace::magnitude2(a)', ('value', A.dot(a, a)))
        t = ss('a2')
        h.root('lerp__%s' % v, '%s(a: %s, b: %s, t: S) -> %s' % (g, Tn, Tn, Tn), 'VectorSpace::lerp(a, b, t)', ('value', [x + (y - x) * t for x, y in zip(a, b)]))
        for i, c in enumerate(comps):
            h.root('unit_%s__%s' % (c, v), '%s() -> %s' % (g, Tn), '%s::unit_%s()' % (T, c), ('value', [ONE if j == i else ZERO for j in range(n)]))
    # scalar on the left (a stamped impl per primitive type): s op v applies the primitive op to each component, scalar first
    for n, (T, comps) in VEC.items():
        for p_ in ['usize', 'u8', 'u16', 'u32', 'u64', 'isize', 'i8', 'i16', 'i32', 'i64', 'f32', 'f64']:
            for op in ('mul', 'div', 'rem'):
                h.root('left_%s__%s__v%d' % (op, p_, n), '(a: %s, b: %s<%s>) -> %s<%s>' % (p_, T, p_, T, p_), 'a %s b' % OPS[op], ('left', op, n, p_))
    a, b = sv('a0', 3), sv('a1', 3)
    h.root('cross', '<S: BaseNum>(a: Vector3<S>, b: Vector3<S>) -> Vector3<S>', 'a.cross(b)', ('value', A.cross(a, b)))
    a, b = sv('a0', 2), sv('a1', 2)
    h.root('perp_dot', '<S: BaseNum>(a: Vector2<S>, b: Vector2<S>) -> S', 'a.perp_dot(b)', ('value', a[0] * b[1] - a[1] * b[0]))
    return h


def spec_selfcheck():
    """Laws named in the statement, verified once on the spec side (DESIGN §5.6)."""
    u, v, w = sv('u', 3), sv('v', 3), sv('w', 3)
    uxv = A.cross(u, v)
    assert all(A.eq(x, -y) for x, y in zip(uxv, A.cross(v, u)))
    assert A.eq(A.dot(uxv, u), ZERO) and A.eq(A.dot(uxv, v), ZERO)
    assert A.eq(A.dot(uxv, uxv), A.dot(u, u) * A.dot(v, v) - A.dot(u, v) * A.dot(u, v))
    lhs = A.cross(u, A.cross(v, w))
    rhs = A.vsub(A.vscale(v, A.dot(u, w)), A.vscale(w, A.dot(u, v)))
    assert all(A.eq(x, y) for x, y in zip(lhs, rhs))
    assert A.eq(A.dot(u, v), A.dot(v, u))


def check_conj(run, S, name, spec, kw):
    r = run.use_root(S, name)
    if r is None:
        run.ob('%s:%s:present' % (PROP, name), False, rule='root-present', expected='root', found='missing')
        return
    conds = bool_conjunction(S, r['out'])
    n = spec[1]
    want = sorted('eq(a0.%s, 0)' % c for c in 'xyzw'[:n])
    got = sorted(S.show(c) for c in conds) if conds is not None else None
    run.ob('%s:%s:conj' % (PROP, name), got == want, rule='K2 comparator coverage', expected=want, found=got if got is not None else 'not a conjunction', where=r.get('span'))


def check_specs(run, S, h):
    from c17 import check_left
    core.run_specs(run, S, h, custom={'conj_eq_zero': check_conj, 'left': lambda run_, S_, name, spec, kw: check_left(run_, S_, name, spec, kw)})


def run(tier):
    core.DEFAULT_FIELD_DIV = False
    run = Run(PROP, tier, 'proof')
    spec_selfcheck()
    h = build()
    msyn = h.monomorphise(['i32', 'f32'], bound='<S: BaseNum>', kinds=None, method_syntax='only', soft=True)
    msyn += h.monomorphise(['f32', 'f64'], bound='<S: BaseFloat>', kinds=None, method_syntax='only', soft=True)
    nbase = len(h.specs)
    mono = h.monomorphise(['i32', 'u8', 'i64', 'f32', 'f64']) if tier == 'thorough' else []
    S, inv, meta = facts.extract(PROP, h.src())
    for w, msg in meta.get('dropped', {}).items():
        run.ob('%s:%s:api-missing' % (PROP, w), False, rule='api-present', expected='wrapper compiles', found=msg)
    check_specs(run, S, h)
    run.floor('roots', len(run.roots), 352)
    if mono:
        run.floor('monomorphic_roots', len([n for n in mono if n in run.roots]), len(mono))
        run.notes['monomorphic_instantiations'] = {'types': ['i32', 'u8', 'i64', 'f32', 'f64'], 'roots': len(mono)}
    run.notes['monomorphic_method_syntax_roots'] = len([n_ for n_ in msyn if n_ in run.roots])
    return run.finish(
        explanation='Every vector operation of dimension 1-4 is summarised from its type-checked MIR for an abstract scalar S: BaseNum and each output component is compared, as a polynomial over the input components, with the textbook definition (component-wise operators in all operand forms, ElementWise, dot, magnitude2, sum/product, cross via Levi-Civita, perp_dot, lerp, unit vectors, zero/is_zero). The algebraic laws in the statement follow from these definitions and are verified once on the spec side.',
        trusted_base=['rustc nightly type checking / trait resolution / MIR construction', 'mirsum abstract interpreter and its scalar-operation models', 'rules/algebra.py normal forms', 'real-number (field) semantics of + - * / on the abstract scalar; % uninterpreted'],
        not_decided=['overflow behaviour of the integer instantiations (the statement excludes it)'],
        exhaustive=True)
