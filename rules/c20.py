"""C20 — serialized values keep their field structure; Decomposed is read order-independently and strictly."""
import itertools
import os
import re
from core import (Run, Conv, ret_leaves)
from summ import Summaries
import facts

PROP = 'C20'
DERIVED = {
    'vector::Vector1': ['x'], 'vector::Vector2': ['x', 'y'], 'vector::Vector3': ['x', 'y', 'z'], 'vector::Vector4': ['x', 'y', 'z', 'w'],
    'point::Point1': ['x'], 'point::Point2': ['x', 'y'], 'point::Point3': ['x', 'y', 'z'],
    'matrix::Matrix2': ['x', 'y'], 'matrix::Matrix3': ['x', 'y', 'z'], 'matrix::Matrix4': ['x', 'y', 'z', 'w'],
    'quaternion::Quaternion': ['v', 's'], 'euler::Euler': ['x', 'y', 'z'],
    'rotation::Basis2': ['mat'], 'rotation::Basis3': ['mat'],
    'projection::PerspectiveFov': ['fovy', 'aspect', 'near', 'far'], 'projection::Perspective': ['left', 'right', 'bottom', 'top', 'near', 'far'],
    'projection::Ortho': ['left', 'right', 'bottom', 'top', 'near', 'far'], 'projection::PlanarFov': ['fovy', 'aspect', 'height', 'near', 'far'],
    'angle::Rad': ['0'], 'angle::Deg': ['0'],
}
NEWTYPES = {'angle::Rad', 'angle::Deg'}
DEC_FIELDS = ['scale', 'rot', 'disp']


AP = {}


def ap(path):
    """the path under which a type of the table is actually defined (a type moved into a private submodule and re-exported
    keeps its public name but not its definition path)"""
    return AP.get(path, path)


def resolve_adt(adts, path):
    a = adts.get(path)
    if a is None:
        short = path.split('::')[-1]
        top = path.split('::')[0]
        c = [q for q in adts if q.split('::')[-1] == short and q.split('::')[0] == top]
        if len(c) == 1:
            AP[path] = c[0]
            a = adts[c[0]]
    return a


def find_root(L, pred):
    return [k for k in L.roots if pred(k)]


def ok_leaf(L, out):
    """the leaf on which every serializer call returned Ok (discriminant 0 on every switch)"""
    for guards, leaf in ret_leaves(out):
        if leaf['k'] == 'ret' and all(kind == 'switch' and want == 0 for kind, tid, want in guards):
            return guards, leaf
    return None


def strval(v):
    return v.get('s') if isinstance(v, dict) else None


def check_serialize(run, L, path, fields, inv_adt):
    """writer table of one type, read off the Serialize::serialize body itself - derived or hand-written alike"""
    short = path.split('::')[-1]
    keys = find_root(L, lambda k: ('impl serde::Serialize for %s<' % ap(path)) in k and k.endswith('::serialize'))
    key = '%s:ser:%s' % (PROP, 'Decomposed' if path == 'transform::Decomposed' else path)
    if not run.ob(key + ':present', len(keys) == 1, rule='K8 writer table', expected='one Serialize::serialize body', found=keys):
        return
    r = L.roots[keys[0]]
    run.roots.add(keys[0])
    where = r.get('span')
    ls = ret_leaves(r['out'])
    if not run.ob(key + ':analysable', all(l['k'] == 'ret' for g_, l in ls), rule='analysable', expected='finite summary', found=[l.get('why') for g_, l in ls if l['k'] != 'ret'][:1], where=where):
        return
    okl = ok_leaf(L, r['out'])
    if not run.ob(key + ':ok-leaf', okl is not None, rule='K8 writer table', expected='an all-Ok path', found='none', where=where):
        return
    guards, leaf = okl
    tr = leaf['trace']
    names = [e['fn'].split('::')[-1] for e in tr]
    if path in NEWTYPES:
        ok = names == ['serialize_newtype_struct'] and strval(tr[0]['args'][1]) == short
        a2 = tr[0]['args'][2] if ok else {}
        okr = ok and 'r' in a2 and a2['r']['name'] == 'a0' and a2['r']['off'] == 0
        run.ob(key + ':newtype', okr, rule='K8 writer table', expected='serialize_newtype_struct("%s", &self.0): a bare number in self-describing formats' % short, found=[(n_, [L.showval(x)[:40] for x in e['args'][1:]]) for n_, e in zip(names, tr)], where=where)
        return
    n = len(fields)
    shape = names == ['serialize_struct'] + ['serialize_field'] * n + ['end']
    if not run.ob(key + ':shape', shape, rule='K8 writer table', expected='serialize_struct, %d x serialize_field, end' % n, found=names, where=where):
        return
    hdr = tr[0]['args']
    run.ob(key + ':header', strval(hdr[1]) == short and hdr[2].get('i') == str(n), rule='K8 writer table', expected='serialize_struct("%s", %d)' % (short, n), found=[L.showval(x)[:40] for x in hdr[1:]], where=where)
    off = 0
    for i, (fname, e) in enumerate(zip(fields, tr[1:1 + n])):
        nm = strval(e['args'][1])
        ref = e['args'][2]
        # a field handed over as `&&T` (a borrowed proxy struct holding `&self.field`): serde's `impl Serialize for &T` forwards to T,
        # so a reference whose pointee is itself one reference is the inner reference
        while 'r' in ref and ref['r']['name'] != 'a0' and isinstance(ref['r'].get('val'), dict) and 'r' in ref['r']['val'] and ref['r']['ty'].startswith('&'):
            ref = ref['r']['val']
        txt = L.showval(ref)

        def mentions(f_):
            return re.search(r'a0\.%s(?![A-Za-z0-9_])' % re.escape(f_), txt) is not None
        good = nm == fname and 'r' in ref and ref['r']['name'] == 'a0' and mentions(fname) and not any(mentions(o) for o in fields if o != fname)
        roff = ref.get('r', {}).get('off')
        if good and roff is not None and path != 'transform::Decomposed':
            good = roff == off
        run.ob('%s:field:%s' % (key, fname), good, rule='K8 writer table', expected='field %d written as "%s" from self.%s' % (i, fname, fname),
               found='"%s" from %s' % (nm, txt[:80]), where=where)
        if 'r' in ref and ref['r']['n']:
            off += ref['r']['n']
    # the declared field idents are the documented names
    decl = [f['name'] for f in inv_adt['fields']]
    run.ob(key + ':idents', decl == fields, rule='K8 writer table', expected='declared fields %s' % fields, found=decl, where=inv_adt['span'])


def const_strs(L, v):
    """the strings of a constant &[&str] table argument"""
    if isinstance(v, dict) and 'r' in v and isinstance(v['r'].get('val'), dict) and 'a' in v['r']['val']:
        return [x.get('s') for x in v['r']['val']['a']]
    m = re.findall(r'\\?"(\w+)\\?"', L.showval(v))
    return m


def check_deserialize_header(run, L, path, fields):
    short = path.split('::')[-1]
    keys = find_root(L, lambda k: ('for %s<' % ap(path)) in k and 'serde::Deserialize' in k and k.endswith('>::deserialize') and k.count('::deserialize') == 1)
    key = '%s:de:%s' % (PROP, 'Decomposed' if path == 'transform::Decomposed' else path)
    if not run.ob(key + ':present', len(keys) >= 1, rule='K8 reader table', expected='a Deserialize::deserialize body', found=keys):
        return
    r = L.roots[keys[0]]
    run.roots.add(keys[0])
    ls = [l for g_, l in ret_leaves(r['out']) if l['k'] == 'ret']
    if not run.ob(key + ':analysable', len(ls) in (1, 2) and len(ls) == len(ret_leaves(r['out'])), rule='analysable', expected='one Return, or Ok / Err of one deserializer call', found=len(ls), where=r.get('span')):
        return
    tr = ls[0]['trace']
    if len(ls) == 2:
        # `let proxy = Proxy::deserialize(d)?; Ok(Self { f: proxy.f, .. })`: both paths made the same single call; the Err path
        # returns its error, the Ok path builds the value from the fields of the call's Ok payload - field i of the result from the
        # payload field that carries the same NAME in the table handed to the deserializer
        same = all(len(l['trace']) == 1 for l in ls) and ls[0]['trace'][0]['ret'] == ls[1]['trace'][0]['ret']
        okl = [l for l in ls if l['v'].get('n') == 'Ok']
        errl = [l for l in ls if l['v'].get('n') == 'Err']
        good = same and len(okl) == 1 and len(errl) == 1
        src = []
        if good:
            call = tr[0]['ret']

            def payload_field(tid):
                """proj(proj(variant(call, 0), 0), i) -> i"""
                t = L.terms[tid]
                if t[0] == 'a' and t[1] == 'proj' and L.terms[t[2][1]][0] == 'i':
                    u = L.terms[t[2][0]]
                    if u[0] == 'a' and u[1] == 'proj' and L.terms[u[2][1]] == ['i', '0']:
                        w = L.terms[u[2][0]]
                        if w[0] == 'a' and w[1] == 'variant' and w[2][0] == call and L.terms[w[2][1]] == ['i', '0']:
                            return int(L.terms[t[2][1]][1])
                return None
            pv = okl[0]['v']['f'][0] if okl[0]['v'].get('f') else {}
            src = [payload_field(x['t']) if 't' in x else None for x in pv.get('a', [])]
            et = errl[0]['v']['f'][0] if errl[0]['v'].get('f') else {}
            e_ok = False
            if 't' in et:
                t = L.terms[et['t']]
                if t[0] == 'a' and t[1] == 'proj':
                    w = L.terms[t[2][0]]
                    e_ok = w[0] == 'a' and w[1] == 'variant' and w[2][0] == call and L.terms[w[2][1]] == ['i', '1']
            good = e_ok and None not in src and len(src) == len(fields)
        table = const_strs(L, tr[0]['args'][2]) if good and tr[0]['fn'].endswith('deserialize_struct') else []
        named = [table[i] if i < len(table) else None for i in src] if good else []
        run.ob(key + ':delegation', good and named == fields, rule='K8 reader table', expected='Err propagated; Ok(Self) with field i taken from the proxy field named %s' % fields,
               found=named or 'not a plain delegation to one deserializer call', where=r.get('span'))
        if not good:
            return
    if path in NEWTYPES:
        ok = len(tr) == 1 and tr[0]['fn'].endswith('deserialize_newtype_struct') and strval(tr[0]['args'][1]) == short
        run.ob(key + ':newtype', ok, rule='K8 reader table', expected='deserialize_newtype_struct("%s", ..)' % short, found=[e['fn'].split('::')[-1] for e in tr], where=r.get('span'))
        return
    ok = len(tr) == 1 and tr[0]['fn'].endswith('deserialize_struct') and strval(tr[0]['args'][1]) == short
    got = const_strs(L, tr[0]['args'][2]) if ok else []
    run.ob(key + ':fields', ok and got == fields, rule='K8 reader table', expected='deserialize_struct("%s", FIELDS = %s)' % (short, fields), found=got, where=r.get('span'))


def check_derive_census(run, L, path):
    """Derive helper attributes (`#[serde(with / deserialize_with / default / ...)]`) are not visible after expansion, but
    their effect is: the generated code then calls something that is neither serde's data model nor generated code.  Every
    function generated for this type (the `_::<impl serde::..>` block: impl methods, visitors, wrapper structs) may call only
    serde's traits; whatever it inlines must be generated code of the same block or core/std."""
    roots = [k for k in L.roots if ('::_::<impl serde::Serialize for %s<' % ap(path)) in k or re.search(r"::_::<impl serde::Deserialize<'\w+> for %s<" % re.escape(ap(path)), k)]
    key = '%s:derive:%s:census' % (PROP, path)
    foreign = set()
    for k in roots:
        r = L.roots[k]
        run.roots.add(k)
        for f in r.get('uninterp', []):
            if not f.startswith(('serde_core::', 'serde::', 'core::', 'std::', 'alloc::')):
                foreign.add('calls ' + f)
        for f in r.get('inlined', []):
            nm = f.split(' @ ')[0]
            if '::_::<impl serde::' in nm or nm.startswith(('core::', 'std::', 'alloc::', '<core::', '<std::', '<alloc::', 'serde', '<serde')):
                continue
            if 'impl serde::Deserialize' in nm or 'impl serde::Serialize' in nm or ' as serde::de::Visitor' in nm:
                continue        # the (hand-written) serde impl of a field's type: checked under that type
            foreign.add('inlines ' + nm)
    run.ob(key, len(roots) >= 1 and not foreign, rule='K8 derive census', expected='derive-generated code of %s calls only serde\'s traits and its own generated items' % path.split('::')[-1],
           found=sorted(foreign)[:4] or '%d generated functions' % len(roots))


def _split_gargs(g):
    """top-level comma split of a printed generic-argument list `[A, B<C, D>, ..]`"""
    g = g.strip()
    if g.startswith('[') and g.endswith(']'):
        g = g[1:-1]
    out, depth, cur = [], 0, ''
    for ch in g:
        if ch in '<([{':
            depth += 1
        elif ch in '>)]}':
            depth -= 1
        if ch == ',' and depth == 0:
            out.append(cur.strip())
            cur = ''
        else:
            cur += ch
    if cur.strip():
        out.append(cur.strip())
    return out


def _type_base(t):
    """a printed type without parameter indices and without its own trailing generic arguments"""
    t = re.sub(r'/#\d+', '', t).strip()
    if t.endswith('>') and not t.startswith('<'):
        depth = 0
        for i in range(len(t) - 1, -1, -1):
            if t[i] == '>':
                depth += 1
            elif t[i] == '<':
                depth -= 1
                if depth == 0:
                    return t[:i]
    return t


def _impl_self(key, trait_marker):
    """Self type of a root key `<Self as Trait<..>>::method`"""
    if not key.startswith('<'):
        # `module::<impl Trait<..> for Self>::method` (an impl written in another module than the type)
        m = re.search(r"<impl (?:%s)[^>]*(?:<[^<>]*>)? for (.*)>::\w+$" % re.escape(trait_marker), key)
        return _type_base(m.group(1)) if m else None
    i = key.rfind(' as ' + trait_marker)
    return _type_base(key[1:i]) if i > 0 else None


def _calls(L, key, suffixes):
    out = []
    for g_, leaf in ret_leaves(L.roots[key]['out']):
        for e in leaf.get('trace', []):
            if any(e['fn'].endswith(s_) or s_ in e['fn'] for s_ in suffixes) and e not in out:
                out.append(e)
    return out


def reader_chain(L, path):
    """The hand-written reader of `path`, followed through the types the code itself names, wherever the impls live:
    Deserialize::deserialize -> deserialize_struct / deserialize_newtype_struct::<V> -> V's Visitor methods;
    visit_map -> next_key::<F> -> F's Deserialize -> deserialize_identifier / _str / _any::<FV> -> FV::visit_str."""
    out = {}
    des = find_root(L, lambda k: ('for %s<' % ap(path)) in k and 'serde::Deserialize' in k and k.endswith('>::deserialize') and k.count('::deserialize') == 1)
    if len(des) != 1:
        return out
    vis = set()
    for e in _calls(L, des[0], ['Deserializer::deserialize_']):
        ga = _split_gargs(e['gargs'])
        if ga:
            vis.add(_type_base(ga[-1]))
    for m in ('visit_map', 'visit_newtype_struct', 'visit_seq'):
        ks = [k for k in L.roots if k.endswith('::' + m) and 'serde::de::Visitor' in k and _impl_self(k, 'serde::de::Visitor') in vis]
        if ks:
            out[m] = ks
    fields = set()
    for k in out.get('visit_map', []):
        for e in _calls(L, k, ['MapAccess::next_key']):
            ga = _split_gargs(e['gargs'])
            if ga:
                fields.add(_type_base(ga[-1]))
    fvis = set()
    for k in L.roots:
        if k.endswith('::deserialize') and _impl_self(k, 'serde::Deserialize') in fields:
            for e in _calls(L, k, ['Deserializer::deserialize_']):
                ga = _split_gargs(e['gargs'])
                if ga:
                    fvis.add(_type_base(ga[-1]))
    ks = [k for k in L.roots if k.endswith('::visit_str') and 'serde::de::Visitor' in k and _impl_self(k, 'serde::de::Visitor') in fvis]
    if ks:
        out['visit_str'] = ks
    # the other entry points a format may use for a key given as text: serde's defaults forward them to visit_str, an override
    # is a second reader table (serde_json::from_str hands keys to visit_borrowed_str)
    for m in ('visit_borrowed_str', 'visit_string'):
        ks = [k for k in L.roots if k.endswith('::' + m) and 'serde::de::Visitor' in k and _impl_self(k, 'serde::de::Visitor') in fvis]
        if ks:
            out[m] = ks
    return out


def reader_roots(L, path, method):
    """Visitor methods of the hand-written reader of `path`, located by following the types named by the reader itself"""
    return reader_chain(L, path).get(method, [])


def check_field_visitor(run, L, path, fields, root_key, strict, method='visit_str'):
    """visit_str: name_i -> its own variant; any other key -> Err (strict) or the ignore variant (derive default).
    Returns {name: variant index}."""
    key = '%s:de:%s:%s' % (PROP, path.split('::')[-1] if path == 'transform::Decomposed' else path, method)
    r = L.roots[root_key]
    run.roots.add(root_key)
    name_to_variant = {}
    names_of = {}
    good = True
    unknown = None
    for guards, leaf in ret_leaves(r['out']):
        if leaf['k'] != 'ret':
            good = False
            continue
        taken = [L.terms[tid] for kind, tid, want in guards if want is True]
        if not all(kind == 'ite' and L.terms[tid][1] == 'eq' for kind, tid, want in guards):
            good = False
        v = leaf['v']
        if taken:
            t = taken[-1]
            strs = [L.terms[x][1] for x in t[2] if L.terms[x][0] == 's']
            pay = v['f'][0] if v.get('n') == 'Ok' and v.get('f') else {}
            while isinstance(pay, dict) and 'a' in pay and 'closure' not in pay and len(pay['a']) == 1:
                pay = pay['a'][0]          # a one-field wrapper around the identifier (`Key(field)`)
            if v.get('n') == 'Ok' and len(strs) == 1 and isinstance(pay, dict) and 'e' in pay:
                name_to_variant[strs[0]] = pay['e']
                names_of[strs[0]] = pay['n']
            else:
                good = False
        else:
            unknown = v
    uniq = len(set(name_to_variant.values())) == len(name_to_variant)
    if strict:
        unk_ok = unknown is not None and unknown.get('n') == 'Err'
        want = 'any other key -> Err (unknown fields are rejected)'
    else:
        unk_ok = unknown is not None and unknown.get('n') == 'Ok' and 'e' in unknown['f'][0] and unknown['f'][0]['e'] not in name_to_variant.values()
        want = 'any other key -> the ignore variant'
    run.ob(key, good and unk_ok and uniq and sorted(name_to_variant) == sorted(fields), rule='K8 reader table',
           expected='%s each to its own variant, %s' % (', '.join('"%s"' % f for f in fields), want), found='%s, unknown -> %s' % (names_of, L.showval(unknown)[:40] if unknown else None), where=r.get('span'))
    return name_to_variant if (good and uniq and sorted(name_to_variant) == sorted(fields)) else {}


def check_newtype_reader(run, L, path):
    """hand-written reader of a newtype: visit_newtype_struct(d) = S::deserialize(d) wrapped, its error propagated"""
    short = path.split('::')[-1]
    key = '%s:de:%s:visit_newtype_struct' % (PROP, path)
    keys = reader_roots(L, path, 'visit_newtype_struct')
    if not run.ob(key + ':present', len(keys) == 1, rule='K8 reader table', expected='one visit_newtype_struct body', found=keys):
        return
    r = L.roots[keys[0]]
    run.roots.add(keys[0])
    where = r.get('span')
    ls = ret_leaves(r['out'])
    if not run.ob(key + ':analysable', all(l['k'] == 'ret' for g_, l in ls), rule='analysable', expected='finite summary', found=[l.get('why') for g_, l in ls if l['k'] != 'ret'][:1], where=where):
        return
    okc, errc = 0, 0
    bad = []
    for guards, leaf in ls:
        calls = [e for e in leaf['trace']]
        if not (len(calls) == 1 and calls[0]['fn'].endswith('Deserialize::deserialize')):
            bad.append('calls %s' % [e['fn'].split('::')[-1] for e in calls])
            continue
        ct = L.show(calls[0]['ret'])
        v = leaf['v']
        txt = L.showval(v)
        if v.get('n') == 'Ok':
            okc += 1
            if 'proj(variant(%s, 0), 0)' % ct not in txt or not all(kind == 'switch' and want == 0 for kind, tid, want in guards):
                bad.append('Ok leaf: %s' % txt[:100])
        elif v.get('n') == 'Err':
            errc += 1
            if txt != 'Err(proj(variant(%s, 1), 0))' % ct:
                bad.append('Err leaf: %s' % txt[:100])
        else:
            bad.append(txt[:80])
    run.ob(key, not bad and okc == 1 and errc >= 1, rule='K8 reader table', expected='Ok(%s(value read by the scalar\'s own Deserialize)), its error propagated unchanged' % short, found=bad[:2] or 'ok', where=where)


def decode_guard(L, tid):
    """classify a guard term of visit_map: ('result'|'option'|'key', call name, call term id)"""
    t = L.terms[tid]
    if not (t[0] == 'a' and t[1] == 'discr'):
        return None
    x = L.terms[t[2][0]]

    def call_of(term):
        if term[0] == 'a' and term[1] == 'call':
            return L.terms[term[2][0]][1].split('::')[-1]
        return None

    def unproj(term, variant):
        """term == proj(variant(y, <variant>), 0) -> y"""
        if term[0] == 'a' and term[1] == 'proj' and L.terms[term[2][1]] == ['i', '0']:
            u = L.terms[term[2][0]]
            if u[0] == 'a' and u[1] == 'variant' and L.terms[u[2][1]] == ['i', str(variant)]:
                return u[2][0]
        return None
    c = call_of(x)
    if c:
        return ('result', c, t[2][0])
    y = unproj(x, 0)
    if y is not None and call_of(L.terms[y]):
        return ('option', call_of(L.terms[y]), y)
    # the key may sit inside one-field wrappers (`Key(field)`): plain projections on field 0 around Some's payload
    xx = x
    for _ in range(3):
        y1 = unproj(xx, 1)
        if y1 is not None:
            y0 = unproj(L.terms[y1], 0)
            if y0 is not None and call_of(L.terms[y0]):
                return ('key', call_of(L.terms[y0]), y0)
            return None
        if xx[0] == 'a' and xx[1] == 'proj' and L.terms[xx[2][1]] == ['i', '0']:
            xx = L.terms[xx[2][0]]
        else:
            break
    return None


def check_visit_map(run, L, name_to_variant, inv_fields, path='transform::Decomposed'):
    keys = reader_roots(L, path, 'visit_map')
    key = '%s:de:%s:visit_map' % (PROP, 'Decomposed' if path == 'transform::Decomposed' else path)
    if not run.ob(key + ':present', len(keys) == 1, rule='K8 reader table', expected='visit_map body', found=keys):
        return
    r = L.roots[keys[0]]
    run.roots.add(keys[0])
    where = r.get('span')
    ls = ret_leaves(r['out'])
    tops = [l for g_, l in ls if l['k'] in ('top', 'panic')]
    if not run.ob(key + ':analysable', not tops, rule='analysable', expected='only Return leaves (and cut leaves beyond the unrolling bound)', found=[l.get('why') for l in tops][:1], where=where):
        return
    variant_to_name = {v: n for n, v in name_to_variant.items()}
    ok_seqs = set()
    n_done = 0
    errors = []
    slot_pos = {}
    for guards, leaf in ls:
        if leaf['k'] == 'cut':
            continue
        n_done += 1
        slots = {}
        seq = []
        cur_key = None
        expect = None       # ('err', term) | ('end',)
        good = True
        for kind, tid, want in guards:
            d = decode_guard(L, tid) if kind == 'switch' else None
            if d is None:
                good = False
                errors.append('undecodable guard %s' % L.show(tid)[:80])
                break
            level, call, ct = d
            if level == 'result' and call == 'next_key':
                if want == 1:
                    expect = ('err', ct)
            elif level == 'option':
                if want in (0, None):
                    expect = ('end',)
            elif level == 'key':
                cur_key = want
                if want is None:
                    good = False
                    errors.append('key variant not enumerated')
                    break
                seq.append(want)
            elif level == 'result' and call == 'next_value':
                if want == 1:
                    expect = ('err', ct)
                else:
                    slots[cur_key] = ct
            else:
                good = False
                errors.append('unexpected guard %s' % L.show(tid)[:80])
                break
        if not good:
            continue
        v = leaf['v']
        if expect is None:
            errors.append('path without an end: %s' % seq)
            continue
        if expect[0] == 'err':
            # the error of the failing call is propagated unchanged
            okv = v.get('n') == 'Err' and 't' in v['f'][0] and L.show(v['f'][0]['t']) == 'proj(variant(%s, 1), 0)' % L.show(expect[1])
            if not okv:
                errors.append('sequence %s: failing call not propagated: %s' % (seq, L.showval(v)[:100]))
            continue
        missing = [vn for vn in sorted(variant_to_name) if vn not in slots]
        if missing:
            # must be Err(missing_field(name of a missing field)), never a default
            txt = L.showval(v)
            m = re.match(r'^Err\(missing_field\("(\w+)"\)\)$', txt)
            okv = m is not None and name_to_variant.get(m.group(1)) in missing
            if not okv:
                errors.append('sequence %s (missing %s): %s' % (seq, [variant_to_name[x] for x in missing], txt[:100]))
            continue
        # complete: Ok(Decomposed { .. }) with each slot from the value read right after its own key
        if v.get('n') != 'Ok':
            errors.append('sequence %s complete but result %s' % (seq, L.showval(v)[:80]))
            continue
        ok_seqs.add(tuple(seq))
        comps = v['f'][0].get('a', [])
        for pos, cval in enumerate(comps):
            txt = L.showval(cval)
            owner = [vn for vn, ct in slots.items() if txt == 'proj(variant(%s, 0), 0)' % L.show(ct)]
            if len(owner) != 1:
                errors.append('sequence %s: result field %d is not the value read for one key: %s' % (seq, pos, txt[:80]))
                continue
            slot_pos.setdefault(owner[0], set()).add(pos)
    run.ob(key + ':paths', not errors, rule='K8 reader table (all key sequences up to the unrolling bound)', expected='every path: failing call propagated, missing field => Err(missing_field(that name)), complete => Ok with each slot from its own key\'s value',
           found=errors[:4], where=where)
    perms = set(itertools.permutations(sorted(variant_to_name)))
    run.ob(key + ':permutations', perms <= ok_seqs, rule='K8 reader table', expected='all %d orders of the fields are accepted' % len(perms), found='%d accepted sequences' % len(ok_seqs), where=where)
    # key variant -> position in the result struct -> declared field ident == key name
    okpos = all(len(p) == 1 for p in slot_pos.values()) and len(slot_pos) == len(variant_to_name)
    names_ok = okpos and all(inv_fields[list(p)[0]] == variant_to_name[vn] for vn, p in slot_pos.items())
    run.ob(key + ':slot-names', names_ok, rule='K8 reader table', expected='the value read after key "f" ends up in the field named f', found={variant_to_name.get(k): sorted(p) for k, p in slot_pos.items()}, where=where)
    run.notes['visit_map_paths_analysed'] = n_done
    run.notes['visit_map_paths_cut_by_bound'] = len([1 for g_, l in ls if l['k'] == 'cut'])


def run(tier):
    run = Run(PROP, tier, 'other')
    bound = 6 if tier == 'thorough' else 5
    S, inv, meta = facts.extract(PROP, 'pub fn c20__anchor<S: BaseNum>(a: Vector1<S>) -> S { a.x }', features=('serde',), inventory=True, local='trait:serde', loop_bound=bound)
    L = Summaries(os.path.join(meta['cdir'], 'local.json'))
    # (a) Cargo.toml
    toml = open(os.path.join(facts.REPO, 'Cargo.toml')).read()
    m = re.search(r'^serde\s*=\s*\{([^}]*)\}', toml, re.M)
    ok = m is not None and re.search(r'optional\s*=\s*true', m.group(1)) and re.search(r'features\s*=\s*\[[^\]]*"(serde_derive|derive)"', m.group(1))
    run.ob('%s:cargo:serde' % PROP, bool(ok), rule='K8', expected='serde is an optional dependency with its derive feature', found=m.group(0) if m else 'no serde dependency', where='Cargo.toml')
    adts = {a['path']: a for a in inv['adts']}
    impls = inv['impls']
    types = dict(DERIVED)
    types['transform::Decomposed'] = DEC_FIELDS
    how = {}
    for path, fields in types.items():
        a = resolve_adt(adts, path)
        dec = path == 'transform::Decomposed'
        key = '%s:derive:%s' % (PROP, path) if not dec else '%s:Decomposed' % PROP
        if not run.ob(key + ':present', a is not None, rule='K8', expected='type exists', found='missing'):
            continue
        if dec:
            dfields = [f['name'] for f in a['fields']]
            run.ob('%s:Decomposed:idents' % PROP, dfields == DEC_FIELDS, rule='K8', expected=DEC_FIELDS, found=dfields)
        ser = [i for i in impls if i['trait'].endswith('ser::Serialize') and i['self'].startswith(ap(path) + '<')]
        de = [i for i in impls if i['trait'].endswith('de::Deserialize') and i['self'].startswith(ap(path) + '<')]
        # whether an impl is derived or written by hand is not part of the property: both are read off their bodies.
        run.ob(key + ':impls', len(ser) == 1 and len(de) == 1, rule='K8', expected='one Serialize and one Deserialize impl',
               found='ser %d de %d' % (len(ser), len(de)), where=a['span'])
        if len(ser) != 1 or len(de) != 1:
            continue
        how[path] = ('derived' if ser[0]['derived'] else 'manual', 'derived' if de[0]['derived'] else 'manual')
        check_serialize(run, L, path, fields, a)
        check_deserialize_header(run, L, path, fields)
        if ser[0]['derived'] or de[0]['derived']:
            check_derive_census(run, L, path)
        if de[0]['derived']:
            if path not in NEWTYPES:
                # the derived field identifier: "name_i" -> __field_i in declaration order, other keys ignored
                ks = find_root(L, lambda k: ('for %s<' % ap(path)) in k and '__FieldVisitor' in k and k.endswith('::visit_str'))
                if run.ob('%s:de:%s:visit_str:present' % (PROP, path), len(ks) == 1, rule='K8 reader table', expected='derived field-name visitor', found=ks):
                    # (Decomposed must reject unknown keys: a derived reader does so only with deny_unknown_fields)
                    n2v = check_field_visitor(run, L, path, fields, ks[0], strict=dec)
                    run.ob('%s:de:%s:visit_str:order' % (PROP, path), [n2v.get(f) for f in fields] == list(range(len(fields))), rule='K8 reader table', expected='field i is identified by the i-th declared name', found=n2v, where=L.roots[ks[0]].get('span'))
        elif path in NEWTYPES:
            check_newtype_reader(run, L, path)
        else:
            # hand-written struct reader: strict field names, then every key sequence of visit_map
            chain = reader_chain(L, path)
            ks = chain.get('visit_str', [])
            tag = 'Decomposed' if dec else path
            vm = chain.get('visit_map', [])
            if vm and all('::_::<impl' in k for k in vm):
                # the hand-written impl delegates to the DERIVED reader of a private proxy struct (delegation checked with the header):
                # that reader is checked like every derived one - its field-name visitor, and the census of its generated code
                proxy = re.search(r"impl serde::Deserialize<'\w+> for ([\w:]+)<", vm[0])
                if run.ob('%s:de:%s:visit_str:present' % (PROP, tag), len(ks) == 1 and proxy is not None, rule='K8 reader table', expected='derived field-name visitor of the proxy', found=ks):
                    n2v = check_field_visitor(run, L, path, fields, ks[0], strict=dec)
                    run.ob('%s:de:%s:visit_str:order' % (PROP, tag), [n2v.get(f) for f in fields] == list(range(len(fields))), rule='K8 reader table', expected='field i is identified by the i-th declared name', found=n2v, where=L.roots[ks[0]].get('span'))
                    check_derive_census(run, L, proxy.group(1))
            elif run.ob('%s:de:%s:visit_str:present' % (PROP, tag), len(ks) == 1, rule='K8 reader table', expected='field-name visitor', found=ks):
                n2v = check_field_visitor(run, L, path, fields, ks[0], strict=True)
                # an overridden visit_borrowed_str / visit_string is what some formats call instead of visit_str: the same table
                for m_ in ('visit_borrowed_str', 'visit_string'):
                    for k_ in chain.get(m_, []):
                        n2 = check_field_visitor(run, L, path, fields, k_, strict=True, method=m_)
                        run.ob('%s:de:%s:%s:agrees' % (PROP, tag, m_), n2 == n2v, rule='K8 reader table', expected='the same name -> variant table as visit_str', found=n2, where=L.roots[k_].get('span'))
                if len(n2v) == len(fields):
                    check_visit_map(run, L, n2v, [f['name'] for f in a['fields']], path)
                # a visit_seq on the same visitor is a second way in (positional formats, JSON arrays): a sequence that ends early is a
                # missing field and must be an error there too - never a default
                for k_ in chain.get('visit_seq', []):
                    r_ = L.roots[k_]
                    run.roots.add(k_)
                    bad_ = []
                    for guards_, leaf_ in ret_leaves(r_['out']):
                        if leaf_['k'] != 'ret':
                            bad_.append('not analysable: %s' % str(leaf_.get('why'))[:80])
                            continue
                        ended = [L.show(tid)[:70] for kind, tid, want in guards_ if kind == 'switch' and want == 0 and L.show(tid).startswith('discr(proj(variant(') and 'next_element' in L.show(tid)]
                        if ended and leaf_['v'].get('n') == 'Ok':
                            bad_.append('Ok although the sequence ended at %s' % ended[0])
                    run.ob('%s:de:%s:visit_seq' % (PROP, tag), not bad_, rule='K8 reader table', expected='a sequence that ends before every field was read is rejected', found=bad_[:3] or 'every early end is an error', where=r_.get('span'))
    run.notes['impl_kinds'] = how
    dec = adts.get('transform::Decomposed')
    run.floor('derived_types', len([p for p in DERIVED if ap(p) in adts]), 20)
    run.floor('roots', len(run.roots), 40)
    return run.finish(
        explanation='With the serde feature: (a) Cargo.toml declares serde optional with its derive feature. (b) For each of the 21 serializable types, whether its impls are derived or written by hand: one Serialize and one Deserialize impl exist; the all-Ok path of the serialize body is serialize_struct(Name, n), serialize_field(ident_i, &self.ident_i) in declaration order, end (Rad/Deg: serialize_newtype_struct of .0, a bare number); the deserialize body passes the same name and FIELDS table. A derived reader is checked through its generated field visitor (name_i -> field i, other keys ignored) and a census of everything the generated code calls or inlines (only serde traits and its own generated items: the effect of with / deserialize_with / default attributes, which are not visible after expansion). A hand-written reader is analysed in full: visit_str maps each name to its own variant and every other key to Err; visit_map is unrolled up to a bound and every key sequence (all permutations, every omission, duplicates, failures of next_key/next_value) is followed: failing calls propagate, a missing field yields Err(missing_field(its name)) - never a default -, a complete set yields Ok with each field taken from the value read right after its own key, and the key name equals the ident of the field it fills; a hand-written newtype reader wraps the value read by the scalar\'s own Deserialize and propagates its error. (c) Decomposed must reject unknown keys whichever way its reader is implemented.',
        trusted_base=['rustc nightly type checking / trait resolution / MIR construction', 'mirsum abstract interpreter with bounded loop unrolling (cut leaves beyond the bound are not claimed)', 'serde_derive generates a reader consistent with the writer for attribute-free structs (only its tables are inspected)', 'serde data model: newtype structs are transparent in self-describing formats'],
        not_decided=['bit-exact round trip of floating-point text (belongs to the serializer, e.g. serde_json)', 'key sequences longer than the unrolling bound'],
        exhaustive=False)
