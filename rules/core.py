"""Shared machinery of the rule layer: term -> normal form, value decoding, obligations, evidence."""
import json
import re
import os
import sys
import time
from fractions import Fraction as Fr

import algebra as A
from algebra import El, ZERO, ONE
from summ import leaves

VERIF = os.path.dirname(os.path.dirname(os.path.abspath(__file__)))

FUNCS = {'sin', 'cos', 'tan', 'asin', 'acos', 'atan', 'atan2', 'abs', 'min', 'max', 'signum', 'floor', 'ceil', 'round',
         'trunc', 'exp', 'ln', 'hypot', 'powf', 'powi', 'rem'}


DEFAULT_FIELD_DIV = True


def strict_key(S, tid, memo=None):
    """Structural canonical form of a term: only a+b = b+a and a*b = b*a are identified (DESIGN §2, rule K6)."""
    if memo is None:
        memo = {}
    k = memo.get(tid)
    if k is not None:
        return k
    t = S.terms[tid]
    if t[0] == 'a':
        ks = [strict_key(S, x, memo) for x in t[2]]
        if t[1] in ('add', 'mul'):
            ks = sorted(ks, key=repr)
        k = (t[1],) + tuple(ks)
    elif t[0] == 'f':
        k = ('f', t[1])
    else:
        k = (t[0], t[1])
    memo[tid] = k
    return k


def strict_leaves(S, v, out=None, memo=None):
    """leaves of a JSON value as strict keys"""
    if out is None:
        out = []
    if memo is None:
        memo = {}
    if 'a' in v:
        for x in v['a']:
            strict_leaves(S, x, out, memo)
    elif 't' in v:
        out.append(strict_key(S, v['t'], memo))
    elif 'e' in v:
        out.append(('enum', v['e']))
        for x in v['f']:
            strict_leaves(S, x, out, memo)
    elif 'r' in v:
        strict_leaves(S, v['r']['val'], out, memo)
    else:
        out.append(('lit', json.dumps(v, sort_keys=True)))
    return out


class Conv:
    """Converts engine terms of one Summaries object into algebra elements."""

    def __init__(self, S, env=None, field_div=None):
        self.S = S
        self.env = env or getattr(S, 'path_env', None) or {}
        self.memo = {}
        self.field_div = DEFAULT_FIELD_DIV if field_div is None else field_div

    def el(self, tid):
        r = self.memo.get(tid)
        if r is not None:
            return r
        t = self.S.terms[tid]
        k = t[0]
        if k == 'v':
            r = self.env.get(t[1])
            if r is None:
                r = El.v(t[1])
        elif k == 'i':
            r = El.c(int(t[1]))
        elif k == 'f':
            import struct
            r = El.c(Fr(struct.unpack('<d', struct.pack('<Q', int(t[1])))[0]))
        elif k == 's':
            r = A.fn('str:' + t[1])
        else:
            op, args = t[1], t[2]
            if op == 'add':
                r = self.el(args[0]) + self.el(args[1])
            elif op == 'sub':
                r = self.el(args[0]) - self.el(args[1])
            elif op == 'mul':
                r = self.el(args[0]) * self.el(args[1])
            elif op == 'div' and not self.field_div:
                # integer-capable code (S: BaseNum): x / y is NOT x * (1/y); keep the division uninterpreted
                den = self.el(args[1])
                # x / 1 = x exactly, for integers and floats alike
                r = self.el(args[0]) if A.eq(den, ONE) else A.fn('idiv', self.el(args[0]), den)
            elif op == 'div':
                den = self.el(args[1])
                if A.iszero(den):
                    r = A.fn('div_by_zero', self.el(args[0]))
                else:
                    r = self.el(args[0]) * A.inv(den)
            elif op == 'neg':
                r = -self.el(args[0])
            elif op == 'sqrt':
                r = A.sqrt(self.el(args[0]))
            elif op == 'hypot' and len(args) == 2:
                x_, y_ = self.el(args[0]), self.el(args[1])
                r = A.sqrt(x_ * x_ + y_ * y_)
            elif op == 'mul_add' and len(args) == 3:
                r = self.el(args[0]) * self.el(args[1]) + self.el(args[2])
            elif op == 'ite' and len(args) == 3:
                r = self.ite(args[0], args[1], args[2])
            elif op == 'call':
                name = self.S.terms[args[0]][1]
                gargs = self.S.terms[args[1]][1]
                r = A.fn('%s%s' % (name, gargs if len(args) == 2 else ''), *[self.el(a) for a in args[2:]])
            else:
                r = A.fn(op, *[self.el(a) for a in args])
        self.memo[tid] = r
        return r

    def ite(self, c, a, b):
        """`if c { a } else { b }` merged by the engine (a fast path inside a helper).  When the two arms are equal under the
        condition that selects the special one, the general arm is the value for every input; otherwise the term stays an
        opaque symbol (and any comparison with a specification fails, naming it)."""
        A_, B_ = self.el(a), self.el(b)
        if A.eq(A_, B_):
            return B_
        t = self.S.terms[c]
        neg = False
        while t[0] == 'a' and t[1] == 'not' and len(t[2]) == 1:
            neg = not neg
            t = self.S.terms[t[2][0]]
        if t[0] == 'a' and t[1] in ('eq', 'ne') and len(t[2]) == 2:
            then_is_special = (t[1] == 'eq') != neg       # the arm taken when the two sides are EQUAL
            x_, y_ = self.el(t[2][0]), self.el(t[2][1])
            d_ = (x_ - y_).norm()
            if d_.zero():                                   # the test always succeeds
                return A_ if then_is_special else B_
            if d_.is_const():                               # the two sides differ by a non-zero constant: never equal
                return B_ if then_is_special else A_
            try:
                h = _hyp_from_difference(d_)
            except Exception:
                h = None
            same = False
            if h is not None and h[1] == 1:
                # x == y fixes one atom: substitute it everywhere (also inside quotients and function arguments)
                mp = {h[0]: h[2]}
                try:
                    same = A.eq(A.deep_substitute(A_, mp), A.deep_substitute(B_, mp))
                except ZeroDivisionError:
                    same = False
            if not same:
                with eq_hyp(x_, y_):
                    same = A.eq(A_, B_)
            if not same:
                try:
                    same = equal_under(A_, B_, [d_])
                except Exception:
                    same = False
            if not same and (ACTIVE_PATH_DIFFS or A.CTX.hyps):
                # the condition together with what the path and the standing hypotheses say
                same = vanishes_under_all(A_ - B_, [d_] + list(ACTIVE_PATH_DIFFS))
            if not same and (x_.is_const() or y_.is_const()):
                # P == c with P a polynomial: every quotient by (a multiple of) P and every root of it becomes a constant
                P_, c_ = (y_, x_.const()) if x_.is_const() else (x_, y_.const())
                P_ = P_.norm()
                mp = {}
                K = A.CTX.kind
                # k * sqrt[N]^(+-1) == c  <=>  sqrt[N] == c' (positive): then N == c'^2
                if len(P_.t) == 1:
                    (m_, k0), = P_.t.items()
                    if len(m_) == 1 and K[m_[0][0]][0] == 'sqrt' and m_[0][1] in (1, -1) and c_ != 0:
                        val = (c_ / k0) if m_[0][1] == 1 else (k0 / c_)
                        if val > 0:
                            mp[m_[0][0]] = El.c(val)
                            P_, c_ = K[m_[0][0]][1], val * val
                if not P_.has_defined() and not P_.zero():
                    lmP = A.lead(P_)
                    for v_ in (A_.atoms() | B_.atoms()):
                        kd = K[v_]
                        if kd[0] in ('inv', 'sqrt') and A.is_poly(kd[1]) and lmP in kd[1].t:
                            k_ = kd[1].t[lmP] / P_.t[lmP]
                            if A.eq(kd[1], P_ * El.c(k_)):
                                val_ = El.c(k_ * c_)
                                try:
                                    mp[v_] = A.inv(val_) if kd[0] == 'inv' else A.sqrt(val_)
                                except (ZeroDivisionError, ValueError):
                                    pass
                if mp:
                    try:
                        same = A.eq(A.deep_substitute(A_, mp), A.deep_substitute(B_, mp))
                    except ZeroDivisionError:
                        same = False
            if same:
                return B_ if then_is_special else A_
        return A.fn('ite', A.fn('cond:' + self.S.show(c)[:200]), A_, B_)

    def val(self, v):
        """JSON value -> nested python: El leaves, ints, strings, dict for refs/enums"""
        if 't' in v:
            return self.el(v['t'])
        if 'i' in v:
            return int(v['i'])
        if 's' in v:
            return v['s']
        if 'u' in v:
            return None
        if 'fn' in v:
            return ('fn', v['fn'])
        if 'a' in v:
            return [self.val(x) for x in v['a']]
        if 'e' in v:
            return {'variant': v['n'], 'idx': v['e'], 'fields': [self.val(x) for x in v['f']]}
        if 'r' in v:
            r = v['r']
            return {'ref': r['name'], 'cell': r['cell'], 'off': r['off'], 'n': r['n'], 'ty': r['ty'], 'val': self.val(r['val'])}
        raise ValueError('value ' + json.dumps(v))


def flat(x):
    """flatten nested lists of leaves"""
    if isinstance(x, list):
        out = []
        for y in x:
            out.extend(flat(y))
        return out
    return [x]


def as_scalar(x):
    """A struct wrapper around one scalar (Rad, Deg, Vector1) flattens to that scalar."""
    f = flat(x)
    if len(f) != 1:
        raise ValueError('not a scalar: %r' % (x,))
    return f[0]


def el_of(x):
    if isinstance(x, El):
        return x
    if isinstance(x, int):
        return El.c(x)
    raise ValueError('not a scalar leaf: %r' % (x,))


class Violation(Exception):
    pass


class Run:
    """One check run of one property: collects obligations, prints verdicts, writes evidence."""

    def __init__(self, prop, tier, level, replay=None):
        self.prop = prop
        self.tier = tier
        self.level = level
        self.t0 = time.time()
        self.obligations = []      # (key, ok, detail)
        self.samples = []
        self.notes = {}
        self.roots = set()
        self.functions = set()
        self.models = set()
        self.uninterp = set()
        self.assumed = set()
        self.nontrivial = set()
        self.floors = {}
        self.seed = int(os.environ.get('VERIF_SEED', '0') or 0)
        self.replay = replay
        kf = os.path.join(VERIF, 'known_findings.json')
        self.known = json.load(open(kf)) if os.path.exists(kf) else {'open': [], 'fixed': []}

    # -- bookkeeping
    def use_root(self, S, name):
        r = S.roots.get(name)
        if r is None:
            return None
        self.roots.add(name)
        self.functions.update(r.get('inlined', []))
        self.models.update(r.get('models', []))
        self.uninterp.update(r.get('uninterp', []))
        return r

    def ob(self, key, ok, rule='', expected=None, found=None, where=None, nontrivial=True, **extra):
        key = key + getattr(self, 'key_suffix', '')
        d = {'key': key, 'ok': bool(ok), 'rule': rule}
        if expected is not None:
            d['expected'] = str(expected)[:2000]
        if found is not None:
            d['found'] = str(found)[:2000]
        if where:
            d['where'] = where
        d.update(extra)
        self.obligations.append(d)
        if nontrivial:
            self.nontrivial.add(key)
        if len(self.samples) < 6 and ok and expected is not None and nontrivial:
            self.samples.append({k: d[k] for k in ('key', 'rule', 'expected', 'found', 'where') if k in d})
        return ok

    def floor(self, name, count, minimum):
        self.floors[name] = {'count': count, 'floor': minimum}
        self.ob('%s:floor:%s' % (self.prop, name), count >= minimum, rule='floor',
                expected='>= %d instances' % minimum, found=count, nontrivial=False)

    # -- finish
    def finish(self, explanation, trusted_base, not_decided=(), exhaustive=False):
        # the idealisation of DESIGN 1.3, stated in every evidence file: values are compared as real numbers / exact integers
        # (structurally only where the property itself speaks of identical results: operator spellings, Sum, copy provenance)
        not_decided = list(not_decided) + ['floating-point evaluation of an identity that holds over the reals: rounding, cancellation, overflow or underflow of intermediates, fused multiply-add, signed zero (adversarial seeds C01-u, C02-u, C04-u, C08-u, C09-u, C10-v, C11-u, C15-u are of this kind and are not detected)']
        viol = [o for o in self.obligations if not o['ok']]
        outdir = os.path.join(os.environ.get('VERIF_OUT_DIR', os.path.join(VERIF, 'out')), self.prop)
        os.makedirs(outdir, exist_ok=True)
        open_keys = {f['key']: f for f in self.known.get('open', []) if f.get('property') == self.prop}
        code = 0
        nviol = 0
        seen = set()
        for o in viol:
            if o['key'] in seen:
                continue
            seen.add(o['key'])
            if o['key'] in open_keys:
                print('KNOWN-FINDING: property=%s %s' % (self.prop, open_keys[o['key']]['what']))
                continue
            nviol += 1
            fn = os.path.join(outdir, _safe(o['key']) + '.json')
            json.dump({'property': self.prop, 'tier': self.tier, **o}, open(fn, 'w'), indent=1)
            print('VIOLATION property=%s replay=%s' % (self.prop, fn))
            print('  rule=%s key=%s' % (o.get('rule'), o['key']))
            for k in ('where', 'expected', 'found'):
                if k in o:
                    print('  %s: %s' % (k, str(o[k])[:400]))
            code = 1
        n = len(self.obligations)
        cov = {
            'explanation': explanation,
            'obligations': n,
            'discharged': n - len(viol),
            'checker_cmd': './check %s %s' % (self.prop, self.tier),
            'trusted_base': list(trusted_base),
            'evaluations': n,
            'distinct_nontrivial': len(self.nontrivial),
            'rule': 'one obligation per (root, output component / guard / table entry); non-trivial = expected object is not a floor or bookkeeping entry; distinct by obligation key',
            'samples': self.samples[:6] or [{'key': o['key'], 'rule': o['rule']} for o in self.obligations[:3]],
            'exhaustive': exhaustive,
            'roots': len(self.roots),
            'functions_analysed': sorted(self.functions)[:400],
            'functions_analysed_count': len(self.functions),
            'models_used': sorted(self.models),
            'uninterpreted_symbols': sorted(self.uninterp)[:100],
            'assumed_nondegenerate': sorted(self.assumed)[:60],
            'floors': self.floors,
            'not_decided': list(not_decided),
        }
        cov.update(self.notes)
        if self.tier == 'thorough' and not os.environ.get('VERIF_SELFTEST_CHILD'):
            fm = feature_matrix(self.prop)
            cov['feature_matrix'] = fm['summary']
            for line in fm['violation_lines']:
                print(line)
            if fm['exit'] == 1:
                code = 1
                nviol += fm['violations']
        if self.tier == 'thorough':
            import selftest
            st = selftest.run_corpus(self.prop)
            if st is not None:
                cov['selftest'] = st
                print('selftest %s: %d/%d mutants flagged, %d/%d refactors silent, %d skipped' % (self.prop, st['mutants_flagged'], st['mutants'], st['refactors_silent'], st['refactors'], st['skipped']))
                for g_ in st['gaps']:
                    if g_.get('documented'):
                        print('  documented gap (not claimed): mutant %s is not flagged - %s' % (g_['id'], g_['documented']))
                    else:
                        print('  SENSITIVITY-GAP (checker): mutant %s not flagged as expected: %s' % (g_['id'], g_))
                for g_ in st['false_alarms']:
                    print('  FALSE-ALARM (checker): refactor %s flagged: %s' % (g_['id'], g_))
        ev = {
            'property_id': self.prop,
            'tier': self.tier,
            'seed': self.seed,
            'level': self.level,
            'coverage': cov,
            'assumptions': list(trusted_base),
            'wall_s': round(time.time() - self.t0, 2),
            'violations': nviol,
        }
        evdir = os.environ.get('VERIF_EVIDENCE_DIR', os.path.join(VERIF, 'evidence'))
        os.makedirs(evdir, exist_ok=True)
        tmp = os.path.join(evdir, '.%s.json.%d' % (self.prop, os.getpid()))
        json.dump(ev, open(tmp, 'w'), indent=1)
        os.replace(tmp, os.path.join(evdir, '%s.json' % self.prop))
        print('%s %s: %d obligations, %d discharged, %d violations, %d roots, %.1fs' % (
            self.prop, self.tier, n, n - len(viol), nviol, len(self.roots), time.time() - self.t0))
        return code


def feature_matrix(prop):
    """thorough tier: the same rules on the tree built with every optional feature that builds offline"""
    import subprocess
    import tempfile
    import shutil
    import re
    work = tempfile.mkdtemp(prefix='verif-fm-')
    try:
        env = dict(os.environ, VERIF_FEATURES_EXTRA='swizzle,mint,serde,bytemuck,rand', VERIF_EVIDENCE_DIR=os.path.join(work, 'ev'),
                   VERIF_OUT_DIR=os.path.join(VERIF, 'out', 'features-all'), VERIF_SELFTEST_CHILD='1')
        p = subprocess.run([os.path.join(VERIF, 'check'), prop, 'quick'], env=env, capture_output=True, text=True, timeout=1800)
        lines = [l for l in p.stdout.split('\n') if l.startswith('VIOLATION') or l.startswith('  ')]
        m = re.search(r'(\d+) obligations, (\d+) discharged, (\d+) violations', p.stdout)
        summ = {'features': 'swizzle,mint,serde,bytemuck,rand', 'exit': p.returncode,
                'obligations': int(m.group(1)) if m else None, 'discharged': int(m.group(2)) if m else None}
        if p.returncode not in (0, 1):
            summ['error'] = p.stdout[-400:]
        return {'summary': summ, 'exit': p.returncode, 'violations': int(m.group(3)) if m else 0, 'violation_lines': lines if p.returncode == 1 else []}
    finally:
        shutil.rmtree(work, ignore_errors=True)


def _safe(k):
    return ''.join(c if c.isalnum() or c in '._-' else '_' for c in k)[:180]


def ret_leaves(out):
    """[(guards, leaf)] of an outcome tree"""
    return list(leaves(out))


# ---------------------------------------------------------------- harness builder and generic comparators
VEC = {1: ('Vector1', 'x'), 2: ('Vector2', 'xy'), 3: ('Vector3', 'xyz'), 4: ('Vector4', 'xyzw')}
PNT = {1: ('Point1', 'x'), 2: ('Point2', 'xy'), 3: ('Point3', 'xyz')}
MAT = {2: 'Matrix2', 3: 'Matrix3', 4: 'Matrix4'}


def sv(name, n):
    """symbolic vector/point argument"""
    return [El.v('%s.%s' % (name, c)) for c in 'xyzw'[:n]]


def sm(name, n):
    """symbolic matrix argument, column-major: M[c][r]"""
    return [[El.v('%s.%s.%s' % (name, c, r)) for r in 'xyzw'[:n]] for c in 'xyzw'[:n]]


def sq(name):
    """symbolic quaternion as (s, [x,y,z]); struct order is v then s"""
    return El.v(name + '.s'), [El.v('%s.v.%s' % (name, c)) for c in 'xyz']


def ss(name):
    return El.v(name)


class Harness:
    def __init__(self, prop):
        self.prop = prop.lower()
        self.lines = []
        self.specs = {}
        self.features = []
        self.extra_deps = ''

    def root(self, name, sig, body, spec, **kw):
        full = '%s__%s' % (self.prop, name)
        assert full not in self.specs, full
        self.lines.append('pub fn %s%s { %s }' % (full, sig, body))
        # a root that is generic over `BaseNum` speaks for the integer scalar types too: `/` is not a field division there
        # (`x * (1 / 2)` is 0 for every integer), so quotients are compared as quotients unless the root says otherwise
        if 'field_div' not in kw and re.search(r'\bS: [\w +:]*\bBaseNum\b', sig.split('(')[0]):
            kw = dict(kw, field_div=False)
        self.specs[full] = (spec, kw)
        return full

    def src(self):
        return '\n'.join(self.lines)

    def monomorphise(self, types, bound='<S: BaseNum>', kinds=('value', 'post'), method_syntax=False, soft=False, only=None):
        """re-instantiate every root with the given generic bound at concrete scalar types (same specs): rustc selects the
        impls a user of that type really gets.  With method_syntax the call is also respelled `a.method(..)`, the way user
        code is written, so that an inherent method on one concrete type that shadows the trait method is seen.
        soft roots are extras: one that does not compile (ambiguous method call) is dropped silently."""
        import re
        added = []
        self.soft = getattr(self, 'soft', set())
        for line in list(self.lines):
            m = re.match(r'pub fn (\w+)(<[^(]*>)(\(.*?\)(?: -> .*?)?) \{ (.*) \}$', line)
            if not m or (bound is not None and m.group(2) != bound) or (bound is None and not re.match(r'^<S(: [\w +:]+)?>$', m.group(2))):
                continue
            name = m.group(1)
            if only is not None and not re.search(only, name):
                continue
            spec, kw = self.specs[name]
            if kinds is not None and spec[0] not in kinds:
                continue
            sig, body = m.group(3), m.group(4)
            variants = [('', body)]
            if method_syntax:
                mm = re.match(r'^(?:[A-Z]\w*(?:::<[^()]*>)?)::(\w+)\(a(?:, (.*))?\)$', body)
                if mm:
                    variants.append(('_m', 'a.%s(%s)' % (mm.group(1), mm.group(2) or '')))
                elif re.match(r'^a\.\w+\(', body) or re.search(r'\)\.\w+\(', body):
                    # already written in method-call syntax: at a concrete scalar type the same text may resolve differently
                    variants.append(('_m', body))
            if method_syntax:
                # `<X<S> as Trait>::f(..)` respelled as the type-relative path `<X<S>>::f(..)` (what `X::f(..)` means in user code): an
                # inherent associated function of that name wins over the trait's
                mp = re.match(r'^<([A-Z]\w*(?:<[^<>]*>)?) as [\w:]+(?:<[^<>]*>)?>::(\w+)\((.*)\)$', body)
                if mp:
                    variants.append(('_p', '<%s>::%s(%s)' % (mp.group(1), mp.group(2), mp.group(3))))
                # the same call on an OWNED value (`let mut v = *a; v.method(..)`): method lookup starts from by-value receivers, so a
                # by-value method of an unrelated trait or an inherent `fn method(self)` on one concrete type wins over `&self` / `&mut self`
                mb = [vb for vs, vb in variants if vs == '_m']
                mv = re.match(r'^a\.(\w+)\((.*)\)$', mb[0]) if mb else None
                if spec[0] in ('ref', 'view', 'refs'):
                    mv = None       # the result is a pointer into the argument: a copy is another object
                if mv and sig.startswith('(a: &mut '):
                    variants.append(('_mv', '{ let mut v_ = *a; let r_ = v_.%s(%s); *a = v_; r_ }' % (mv.group(1), mv.group(2))))
                elif mv and sig.startswith('(a: &') and not sig.startswith("(a: &'"):
                    variants.append(('_mv', '{ let v_ = *a; v_.%s(%s) }' % (mv.group(1), mv.group(2))))
            for ty in types:
                for vs, vb in variants:
                    if vs == '' and method_syntax == 'only':
                        continue
                    n2 = '%s__%s%s' % (name, ty, vs)
                    self.lines.append('pub fn %s%s { %s }' % (n2, re.sub(r'\bS\b', ty, sig), re.sub(r'\bS\b', ty, vb)))
                    kw2 = dict(kw)
                    kw2['allow_panics'] = 'arith'
                    self.specs[n2] = (spec, kw2)
                    added.append(n2)
                    if soft:
                        self.soft.add(n2)
        return added


def single_ret(run, S, name, allow_panics=False):
    """The root must summarise to exactly one Return leaf (no Top).  Returns (root, leaf) or None."""
    r = run.use_root(S, name)
    if r is None:
        run.ob('%s:%s:present' % (run.prop, name), False, rule='root-present', expected='harness root summarised',
               found='missing (API form vanished or wrapper failed to compile)')
        return None
    ls = ret_leaves(r['out'])
    tops = [l for g, l in ls if l['k'] == 'top']
    if tops:
        run.ob('%s:%s:analysable' % (run.prop, name), False, rule='analysable', expected='finite summary',
               found='not analysable: ' + tops[0]['why'])
        return None
    rets = [(g, l) for g, l in ls if l['k'] == 'ret']
    pans = [(g, l) for g, l in ls if l['k'] == 'panic']
    if allow_panics == 'arith' and any(not (l['why'].startswith('Overflow') or l['why'] in ('DivisionByZero', 'RemainderByZero', 'OverflowNeg')) for g, l in pans):
        run.ob('%s:%s:panics' % (run.prop, name), False, rule='straight-line', expected='only arithmetic overflow / division-by-zero panics', found=sorted({l['why'] for g, l in pans}), where=r.get('span'))
        return None
    if 1 < len(rets) <= 64 and not (pans and not allow_panics) and getattr(run, "split_ok", False):
        # the code special-cases some inputs: every path is checked on its own, under its own path condition
        raise SplitRoot(name, r, rets)
    if len(rets) != 1 or (pans and not allow_panics):
        run.ob('%s:%s:shape' % (run.prop, name), False, rule='straight-line', expected='one Return leaf, no Panic',
               found='%d Return, %d Panic leaves' % (len(rets), len(pans)), where=r.get('span'))
        return None
    return r, rets[0][1]


class SplitRoot(Exception):
    def __init__(self, name, root, paths):
        Exception.__init__(self, 'split ' + name)
        self.name, self.root, self.paths = name, root, paths


class _View:
    """a Summaries object with one root replaced by a single path of it"""

    def __init__(self, S, name, root, env, guards=()):
        self._S = S
        self.roots = dict(S.roots)
        self.roots[name] = root
        self.path_env = env
        self.path_guards = tuple(getattr(S, 'path_guards', ())) + tuple(guards)

    def __getattr__(self, k):
        return getattr(self._S, k)


def run_custom(run, S, fn, name, spec, kw, depth=0):
    """Run a rule that expects straight-line roots.  When a root forks (a fast path for special inputs), the rule is
    applied to every path separately: exact equalities tested on the path become substitutions / rewrite hypotheses,
    other guards give nothing, so each leaf must conform under exactly what its path guarantees."""
    run.split_ok = depth < 3
    try:
        fn(run, S, name, spec, kw)
    except SplitRoot as sp:
        run.split_ok = False
        for li, (guards, leaf) in enumerate(sp.paths):
            if path_infeasible(S, guards):
                continue
            env = dict(getattr(S, 'path_env', None) or {})
            cv0 = Conv(S)
            saved = dict(A.CTX.hyps)
            old_suffix = getattr(run, 'key_suffix', '')
            try:
                for an, tid in _leaf_equalities(S, guards).items():
                    e_ = cv0.el(tid)
                    env[an] = e_
                    atom = A.CTX.atom(an)
                    if atom not in A.CTX.hyps and atom not in e_.atoms():
                        A.CTX.hyps[atom] = (1, e_)
                mp_ = {}
                _linear_path_substitutions(S, guards, cv0, env, mp_)
                for atom, e_ in mp_.items():
                    if atom not in A.CTX.hyps:
                        A.CTX.hyps[atom] = (1, e_)
                view = _View(S, sp.name, dict(sp.root, out=leaf), env, guards)
                run.key_suffix = old_suffix + ':path%d' % li
                with path_hyps(S, guards):
                    run_custom(run, view, fn, name, spec, kw, depth + 1)
            finally:
                run.key_suffix = old_suffix
                A.CTX.hyps.clear()
                A.CTX.hyps.update(saved)
    finally:
        run.split_ok = False


def cmp_struct(run, S, name, got, exp, rule, where=None, tag='ret', hyp=None):
    """Compare a decoded value with an expected nested structure leaf by leaf (ring/field equality)."""
    g, e = flat(got), flat(exp)
    if len(g) != len(e):
        run.ob('%s:%s:%s:arity' % (run.prop, name, tag), False, rule=rule, expected='%d leaves' % len(e), found='%d leaves' % len(g), where=where)
        return False
    allok = True
    for i, (x, y) in enumerate(zip(g, e)):
        key = '%s:%s:%s:%d' % (run.prop, name, tag, i)
        try:
            if isinstance(y, El) or isinstance(x, El):
                ok = A.eq(el_of(x), el_of(y))
                if not ok and ACTIVE_PATH_DIFFS:
                    # equal whenever the path's own equalities (and the standing hypotheses) hold
                    ok = equal_under(el_of(x), el_of(y), list(ACTIVE_PATH_DIFFS))
                if ok and DEFINEDNESS:
                    # equal as rational functions is not enough: the code must not divide by something that can vanish where the
                    # specified value exists
                    und = A.uncovered_denominators(el_of(x), el_of(y), list(ACTIVE_NONZERO))
                    if und:
                        if DEFINEDNESS == 'report':
                            import sys
                            sys.stderr.write('DEFINEDNESS %s: %s\n' % (key, [A.show(u, 6) for u in und][:3]))
                        else:
                            ok = False
                            x = 'divides by %s, which can vanish where the specified value is defined; value %s' % (', '.join(A.show(u, 6) for u in und[:3]), A.show(el_of(x), 4))
            else:
                ok = (x == y)
        except (ValueError, ZeroDivisionError) as ex:
            ok = False
            x = 'error: %s' % ex
        nontriv = isinstance(y, El) and (len(y.t) > 1 or any(len(m) > 1 or (m and m[0][1] != 1) for m in y.t))
        run.ob(key, ok, rule=rule, expected=y, found=x, where=where, nontrivial=nontriv or True)
        allok = allok and ok
    return allok


def check_defined(run, key, vals, allowed, where=None):
    """The values the code returns must not divide by anything that can vanish on the property's domain: every denominator is a
    non-zero constant, positive definite, (a factor of) one of the quantities the statement assumes non-zero (`allowed`), or
    established non-zero on the path."""
    if not DEFINEDNESS:
        return True
    und = []
    prod = ONE
    for a_ in allowed:
        prod = prod * A.inv(a_)
    for v_ in vals:
        if isinstance(v_, El):
            und.extend(A.uncovered_denominators(v_, prod, list(ACTIVE_NONZERO)))
    return run.ob(key + ':defined', not und, rule='definedness', expected='no division by a quantity that can vanish where the statement applies (allowed: %s)' % ', '.join(A.show(a_, 4) for a_ in allowed),
                  found='divides by ' + ', '.join(A.show(u, 6) for u in und[:3]) if und else 'all denominators accounted for', where=where)


def _path_eq_pairs(S, guards):
    """(a, b) term-id pairs of the exact equalities that hold on a path"""
    for kind, tid, want in guards:
        t = S.terms[tid]
        if kind == 'ite' and want is True and t[0] == 'a' and t[1] == 'eq' and len(t[2]) == 2:
            yield t[2]
        elif kind == 'ite' and want is False and t[0] == 'a' and t[1] == 'ne' and len(t[2]) == 2:
            yield t[2]
        elif kind == 'switch' and want == 1 and t[0] == 'a' and t[1] == 'cmp' and len(t[2]) == 2:
            yield t[2]


def path_infeasible(S, guards, cv=None):
    """a path whose own conditions are contradictory as polynomial identities: an equality required between two things that
    differ by a non-zero constant (`1 + 1 == 1`, or `x == 0` after `x == 1`), an inequality required between identical
    things, a comparison outcome that contradicts the constants.  Input atoms fixed by earlier equalities of the path are
    substituted into the later conditions."""
    env = dict(getattr(S, 'path_env', None) or {})
    cvx = Conv(S, env=env) if env else Conv(S)
    for kind, tid, want in guards:
        t = S.terms[tid]
        if kind == 'switch' and t[0] == 'a' and t[1] == 'cmp' and len(t[2]) == 2 and want in (0, 1, 2, 3):
            try:
                d = (cvx.el(t[2][0]) - cvx.el(t[2][1])).norm()
            except Exception:
                continue
            if d.is_const():
                c_ = d.const()
                actual = 1 if c_ == 0 else (0 if c_ < 0 else 2)
                if want != actual:
                    return True
            continue
        if kind != 'ite' or t[0] != 'a' or t[1] not in ('eq', 'ne') or len(t[2]) != 2:
            continue
        try:
            d = (cvx.el(t[2][0]) - cvx.el(t[2][1])).norm()
        except Exception:
            continue
        must_equal = (want is True) == (t[1] == 'eq')
        if must_equal and d.is_const() and not d.zero():
            return True
        if not must_equal and d.zero():
            return True
        if must_equal:
            # remember `input == value` for the conditions that follow
            for x, y in ((t[2][0], t[2][1]), (t[2][1], t[2][0])):
                if S.terms[x][0] == 'v' and S.terms[x][1] not in env:
                    try:
                        val = cvx.el(y)
                    except Exception:
                        break
                    if A.CTX.atom(S.terms[x][1]) not in val.atoms():
                        env[S.terms[x][1]] = val
                        cvx = Conv(S, env=env)
                    break
    return False


def _leaf_equalities(S, guards):
    """exact equalities that hold on a path: {input atom name: term id it equals}.  Lets a correct special-case
    branch (if x == c { shortcut }) be compared with the general formula under x := c."""
    eqs = {}
    for a, b in _path_eq_pairs(S, guards):
        if S.terms[a][0] == 'v' and S.terms[b][0] != 'v':
            eqs[S.terms[a][1]] = b
        elif S.terms[b][0] == 'v' and S.terms[a][0] != 'v':
            eqs[S.terms[b][1]] = a
        elif S.terms[a][0] == 'v' and S.terms[b][0] == 'v':
            eqs[S.terms[a][1]] = b
    return eqs


ACTIVE_PATH_DIFFS = []
ACTIVE_NONZERO = []
DEFINEDNESS = os.environ.get('VERIF_DEFINEDNESS', 'on')


def _poly_form(d, raw=False):
    """d == 0 rewritten as P == 0 with P free of negative powers: denominators (inv[Q]^e, x^-e) multiplied away"""
    K = A.CTX.kind
    if raw or (A.is_poly(d) and not any(K[v][0] in ('sqrt', 'inv') for v in d.atoms())):
        # already a polynomial in plain atoms: taken as it is (normalising would rewrite it with the very hypothesis that
        # may have been derived from it)
        return d if A.is_poly(d) and not d.zero() else None
    d = d.norm()
    for _ in range(4):
        negs = {}
        dens = {}
        for m in d.t:
            for v, e in m:
                if K[v][0] == 'inv' and e > 0:
                    dens[v] = max(dens.get(v, 0), e)
                elif e < 0 and K[v][0] != 'inv':
                    negs[v] = min(negs.get(v, 0), e)
        if not negs and not dens:
            break
        f = ONE
        for v, e in dens.items():
            f = f * (K[v][1] ** e)
        if negs:
            f = f.rawmul(El({tuple(sorted((v, -e) for v, e in negs.items())): Fr(1)}))
        d = (d * f).norm()
    return d if A.is_poly(d) and not d.zero() else None


def radical_substitutions(d, atoms):
    """What the equality d == 0 says about DEFINED atoms: with h the polynomial form of d,
    sqrt[R] with R - k h = c > 0 (a constant)  becomes sqrt(c);   inv[P] with P - k h = c != 0  becomes 1/c;
    sqrt[R1], sqrt[R2] with R1 - R2 = k h  become the same atom.   Returns {atom id: El}."""
    h = _poly_form(d)
    if h is None:
        return {}
    K = A.CTX.kind
    lm = A.lead(h)
    if not lm:
        return {}
    mp = {}
    sq = [v for v in atoms if K[v][0] == 'sqrt' and A.is_poly(K[v][1])]
    iv = [v for v in atoms if K[v][0] == 'inv' and A.is_poly(K[v][1])]

    def residue(R):
        """R - k h with k chosen to cancel h's leading monomial; None if that monomial does not occur in R"""
        if lm not in R.t:
            return None
        k = R.t[lm] / h.t[lm]
        return (R - h * El.c(k)).norm()
    for v in sq:
        r = residue(K[v][1])
        if r is not None and r.is_const() and r.const() > 0:
            mp[v] = A.sqrt(El.c(r.const()))
    for v in iv:
        r = residue(K[v][1])
        if r is not None and r.is_const() and r.const() != 0:
            mp[v] = El.c(1 / r.const())
    for i, v1 in enumerate(sq):
        if v1 in mp:
            continue
        for v2 in sq:
            if v2 >= v1 or v2 in mp:
                continue
            df = (K[v1][1] - K[v2][1]).norm()
            if df.zero():
                continue
            if lm in df.t and (df - h * El.c(df.t[lm] / h.t[lm])).norm().zero():
                mp[v1] = El.a(v2)
                break
    return mp


def equal_under(x, y, diffs):
    """x == y whenever the equalities diffs hold: each alone by divisibility, by what it says about radicals and quotients,
    all together by bounded ideal membership (sufficient conditions only)"""
    if A.eq(x, y):
        return True
    for d_ in diffs:
        try:
            if vanishes_under(x - y, d_):
                return True
            mp = radical_substitutions(d_, x.atoms() | y.atoms())
            if mp:
                x2, y2 = A.deep_substitute(x, mp), A.deep_substitute(y, mp)
                if A.eq(x2, y2) or vanishes_under(x2 - y2, d_):
                    return True
        except ZeroDivisionError:
            pass
    return bool(diffs) and vanishes_under_all(x - y, list(diffs))


def hyp_relations():
    """the rewrite hypotheses currently installed (unit norms, ...) as polynomials that vanish"""
    out = []
    for v, (k, poly) in A.CTX.hyps.items():
        out.append(El.a(v, k) - poly)
    return out


def vanishes_under_all(D, ds):
    """D == 0 whenever all of ds are zero (bounded-degree ideal membership; sufficient, not necessary)"""
    D = D.norm()
    if D.zero():
        return True
    gens = [g for g in (_poly_form(d) for d in ds) if g is not None]
    gens += [g for g in (_poly_form(d, raw=True) for d in hyp_relations()) if g is not None]
    Dp = _poly_form(D)
    if Dp is None or not gens:
        return False
    try:
        return A.in_ideal(Dp, gens)
    except Exception:
        return False


def vanishes_under(D, d):
    """D == 0 whenever d == 0: the polynomial form of d divides D exactly (all atoms, defined or not, as indeterminates) -
    a sufficient condition that needs no orientation of the hypothesis"""
    D = D.norm()
    if D.zero():
        return True
    h = _poly_form(d)
    if h is None:
        return False
    if A.exact_div(D, h) is not None:
        return True
    Dp = _poly_form(D)
    return Dp is not None and A.exact_div(Dp, h) is not None


def _hyp_from_difference(d):
    """d == 0 as a rewrite rule  v^k -> poly  (v a plain atom occurring in exactly one monomial, alone), after clearing
    denominators; None when no such orientation exists"""
    K = A.CTX.kind
    d = d.norm()
    if d.zero():
        return None
    if d.has_defined():
        for _ in range(3):
            dens = {}
            for m in d.t:
                for v, e in m:
                    if K[v][0] == 'inv' and e > 0:
                        dens[v] = max(dens.get(v, 0), e)
            if not dens:
                break
            mul = ONE
            for v, e in dens.items():
                mul = mul * (K[v][1] ** e)
            d = (d * mul).norm()
        if d.zero() or d.has_defined():
            return None
    negs = {}
    for m in d.t:
        for v, e in m:
            if e < 0 and K[v][0] in ('base', 'fn'):
                # (a negative power of a plain or function atom, e.g. tan = sin * cos^-1: where d is defined it can be multiplied away)
                negs[v] = min(negs.get(v, 0), e)
    if negs:
        mul = El({tuple(sorted((v, -e) for v, e in negs.items())): Fr(1)})
        d = d.rawmul(mul).norm()
        if d.zero():
            return None
    cands = []
    for m, c in d.t.items():
        if len(m) == 1 and m[0][1] >= 1 and K[m[0][0]][0] in ('base', 'fn') and m[0][0] not in A.CTX.hyps:
            v = m[0][0]
            if all(m2 is m or all(v2 != v for v2, _ in m2) for m2 in d.t):
                cands.append((v, m, c))
    if not cands:
        return None
    v, m, c = max(cands, key=lambda x: x[0])
    rest = El({m2: c2 for m2, c2 in d.t.items() if m2 != m})
    return v, m[0][1], rest * El.c(Fr(-1) / c)


class eq_hyp:
    """temporarily assume x == y (one rewrite hypothesis derived from x - y, if it can be oriented)"""

    def __init__(self, x, y):
        self.d = x - y

    def __enter__(self):
        self.saved = dict(A.CTX.hyps)
        try:
            h = _hyp_from_difference(self.d)
        except Exception:
            h = None
        if h is not None:
            A.CTX.hyps[h[0]] = (h[1], h[2])
        return self

    def __exit__(self, *exc):
        A.CTX.hyps.clear()
        A.CTX.hyps.update(self.saved)
        return False


class path_hyps:
    """Polynomial equalities of a path (`if q.magnitude2() == 1 { shortcut }`) installed as rewrite hypotheses for the
    duration of a comparison: P == Q with P - Q = c*v^k + rest (v in no other monomial) gives v^k -> -rest/c.
    Only equalities the path really tests are used, so the leaf is compared exactly under its own path condition.
    Every equality is also recorded (ACTIVE_PATH_DIFFS) for the divisibility / ideal-membership fallback."""

    def __init__(self, S, guards, field_div=None, nz_guards=None):
        self.S, self.guards, self.field_div = S, guards, field_div
        self.nz_guards = guards if nz_guards is None else nz_guards
        self.installed = []

    def __enter__(self):
        self.saved = dict(A.CTX.hyps)
        self.ndiffs = len(ACTIVE_PATH_DIFFS)
        self.nnz = len(ACTIVE_NONZERO)
        cv = Conv(self.S, field_div=self.field_div)
        # quantities the path established to be non-zero: `a != b`, a failed exact or approximate equality test (x ~ x always
        # holds), a strict inequality, `partial_cmp` outcomes other than Equal
        for kind, tid, want in self.nz_guards:
            try:
                if kind == 'ite':
                    g_ = parse_guard(self.S, cv, tid)
                    truth = (want is True) != g_.get('neg', False)
                    if g_['kind'] in ('eq', 'ulps', 'abs_diff', 'relative') and not truth:
                        ACTIVE_NONZERO.append((g_['a'] - g_['b']).norm())
                    elif g_['kind'] in ('lt', 'gt') and truth:
                        ACTIVE_NONZERO.append((g_['a'] - g_['b']).norm())
                    elif g_['kind'] in ('le', 'ge') and not truth:
                        ACTIVE_NONZERO.append((g_['a'] - g_['b']).norm())
                elif kind == 'switch':
                    t = self.S.terms[tid]
                    if t[0] == 'a' and t[1] == 'cmp' and len(t[2]) == 2 and want in (0, 2):
                        ACTIVE_NONZERO.append((cv.el(t[2][0]) - cv.el(t[2][1])).norm())
            except Exception:
                pass
        for a, b in _path_eq_pairs(self.S, self.guards):
            try:
                d = (cv.el(a) - cv.el(b)).norm()
            except Exception:
                continue
            ACTIVE_PATH_DIFFS.append(d)
            if self.S.terms[a][0] == 'v' or self.S.terms[b][0] == 'v':
                continue
            try:
                h = _hyp_from_difference(d)
            except Exception:
                h = None
            if h is not None and h[0] not in A.CTX.hyps:
                A.CTX.hyps[h[0]] = (h[1], h[2])
                self.installed.append(h[0])
        return self

    def __exit__(self, *exc):
        del ACTIVE_PATH_DIFFS[self.ndiffs:]
        del ACTIVE_NONZERO[self.nnz:]
        A.CTX.hyps.clear()
        A.CTX.hyps.update(self.saved)
        return False


def _subst_struct(x, mapping):
    if isinstance(x, list):
        return [_subst_struct(y, mapping) for y in x]
    if isinstance(x, El):
        return A.deep_substitute(x, mapping)
    return x


def _linear_path_substitutions(S, guards, cv0, env, mapping):
    """path equalities that are not literally `input == term` but fix one input atom linearly (`k * x == 0`, `x + 1 == y`):
    the atom is substituted as well (reaches the arguments of function symbols, which rewriting does not)"""
    K = A.CTX.kind
    for a, b in _path_eq_pairs(S, guards):
        if S.terms[a][0] == 'v' or S.terms[b][0] == 'v':
            continue
        try:
            h = _hyp_from_difference(cv0.el(a) - cv0.el(b))
        except Exception:
            h = None
        if h is not None and h[1] == 1 and K[h[0]][0] == 'base' and h[0] not in mapping and h[0] not in h[2].atoms():
            mapping[h[0]] = h[2]
            env[A.CTX.names[h[0]]] = h[2]


def check_value(run, S, name, expected, rule='K3 ring conformance', post=None, allow_panics=False, field_div=None):
    """Every Return leaf must conform.  Normally there is exactly one; when the code special-cases inputs by exact
    equality tests, each leaf is compared under the equalities of its own path, so a correct shortcut stays silent
    and a wrong one is reported for that path."""
    r = run.use_root(S, name)
    if r is None:
        run.ob('%s:%s:present' % (run.prop, name), False, rule='root-present', expected='harness root summarised',
               found='missing (API form vanished or wrapper failed to compile)')
        return False
    ls = ret_leaves(r['out'])
    tops = [l for g, l in ls if l['k'] in ('top', 'cut')]
    if tops:
        run.ob('%s:%s:analysable' % (run.prop, name), False, rule='analysable', expected='finite summary', found='not analysable: ' + tops[0]['why'])
        return False
    rets = [(g, l) for g, l in ls if l['k'] == 'ret']
    pans = [(g, l) for g, l in ls if l['k'] == 'panic']
    if allow_panics == 'arith' and any(not (l['why'].startswith('Overflow') or l['why'] in ('DivisionByZero', 'RemainderByZero', 'OverflowNeg')) for g, l in pans):
        run.ob('%s:%s:panics' % (run.prop, name), False, rule='straight-line', expected='only arithmetic overflow / division-by-zero panics', found=sorted({l['why'] for g, l in pans}), where=r.get('span'))
        return False
    if not rets or (pans and not allow_panics) or len(rets) > 64:
        run.ob('%s:%s:shape' % (run.prop, name), False, rule='straight-line', expected='Return leaves only (no Panic)' if not allow_panics else 'at least one Return leaf',
               found='%d Return, %d Panic leaves' % (len(rets), len(pans)), where=r.get('span'))
        return False
    ok = True
    for li, (guards, leaf) in enumerate(rets):
        if len(rets) > 1 and path_infeasible(S, guards):
            continue
        # K1 (copy provenance) asks WHICH component a result is, not what it is worth: that two components compare equal on a path
        # (`if a != b { swap }`: +0.0 == -0.0, yet they are different values) is no licence to deliver the other one
        copy_rule = rule.startswith('K1')
        eqs = _leaf_equalities(S, guards) if len(rets) > 1 and not copy_rule else {}
        cv0 = Conv(S, field_div=field_div)
        env = {}
        mapping = {}
        for an, tid in eqs.items():
            e_ = cv0.el(tid)
            env[an] = e_
            mapping[A.CTX.atom(an)] = e_
        if len(rets) > 1 and not copy_rule:
            _linear_path_substitutions(S, guards, cv0, env, mapping)
        cv = Conv(S, env=env, field_div=field_div) if env else cv0
        suffix = '' if len(rets) == 1 else ':path%d' % li
        with path_hyps(S, guards if len(rets) > 1 and not copy_rule else (), field_div=field_div, nz_guards=guards):
            if expected is not None:
                ok = cmp_struct(run, S, name + suffix, cv.val(leaf['v']), _subst_struct(expected, mapping), rule, where=r.get('span')) and ok
            if post is not None:
                for argname, exp in post.items():
                    if argname not in leaf['post']:
                        run.ob('%s:%s:post:%s' % (run.prop, name + suffix, argname), False, rule=rule, expected='post-state of ' + argname, found='absent')
                        ok = False
                        continue
                    ok = cmp_struct(run, S, name + suffix, cv.val(leaf['post'][argname]), _subst_struct(exp, mapping), rule, where=r.get('span'), tag='post.' + argname) and ok
    return ok


def order_facts(S, cv, guards):
    """what the guards of a path establish about order: [(G, rels)] meaning  G REL 0  for some REL in rels
    (rels within 'lt','le','eq','ge','gt','un'; 'un' = unordered, a NaN operand), for if-form comparisons and for
    match-on-partial_cmp"""
    NEG = {'gt': {'le', 'un'}, 'ge': {'lt', 'un'}, 'lt': {'ge', 'un'}, 'le': {'gt', 'un'}}
    out = []
    for kind, tid, want in guards:
        t = S.terms[tid]
        if kind == 'switch' and t[0] == 'a' and t[1] == 'cmp' and len(t[2]) == 2 and want in (0, 1, 2, 3):
            out.append((cv.el(t[2][0]) - cv.el(t[2][1]), {{0: 'lt', 1: 'eq', 2: 'gt', 3: 'un'}[want]}))
        elif kind == 'ite':
            g_ = parse_guard(S, cv, tid)
            if g_['kind'] in NEG:
                truth = want != g_['neg']
                out.append((g_['a'] - g_['b'], {g_['kind']} if truth else set(NEG[g_['kind']])))
    return out


def sign_established(facts, N):
    """does the path establish N >= 0 (+1), N <= 0 (-1), only through NaN ('nan'), or nothing (None)?"""
    for G, rels in facts:
        for k in (1, -1):
            if A.eq(N, G * k):
                real = rels - {'un'}
                if not real:
                    return 'nan'
                if k == -1:
                    real = {{'lt': 'gt', 'le': 'ge', 'gt': 'lt', 'ge': 'le', 'eq': 'eq'}[x] for x in real}
                if real <= {'gt', 'ge', 'eq'}:
                    return 1
                if real <= {'lt', 'le', 'eq'}:
                    return -1
    return None


def paths_agree(run, S, key, out_code, out_ref, rule, where=None, max_pairs=400):
    """The code under test must return, on each of its paths, what a reference composition returns on every reference
    path compatible with it (no condition decided the other way) - compared under the equalities of BOTH paths.  Lets the
    code special-case inputs the reference does not (and vice versa) while a real difference is reported for the path."""
    lc, lr = ret_leaves(out_code), ret_leaves(out_ref)
    bad_kind = [l['k'] for g_, l in lc + lr if l['k'] not in ('ret', 'panic')]
    if bad_kind:
        run.ob(key + ':analysable', False, rule='analysable', expected='finite summaries', found=bad_kind[:3], where=where)
        return False
    cv = Conv(S)
    problems = []
    npairs = 0
    for gc, leafc in lc:
        if path_infeasible(S, gc):
            continue
        dc = {tid: want for kind, tid, want in gc}
        for gr, leafr in lr:
            if any(tid in dc and dc[tid] != want for kind, tid, want in gr):
                continue
            both = tuple(gc) + tuple(g for g in gr if g[1] not in dc)
            if path_infeasible(S, both):
                continue
            npairs += 1
            if npairs > max_pairs:
                break
            if leafc['k'] != leafr['k']:
                problems.append('%s vs %s under %s' % (leafc['k'], leafr['k'], [S.show(t)[:50] for k_, t, w in both][:3]))
                continue
            if leafc['k'] != 'ret':
                continue
            with path_hyps(S, both):
                a, b = flat(cv.val(leafc['v'])), flat(cv.val(leafr['v']))
                if len(a) != len(b):
                    problems.append('arity')
                    continue
                for i, (x, y) in enumerate(zip(a, b)):
                    if isinstance(x, El) or isinstance(y, El):
                        same = A.eq(el_of(x), el_of(y)) or equal_under(el_of(x), el_of(y), list(ACTIVE_PATH_DIFFS))
                    else:
                        same = x == y
                    if not same:
                        problems.append('component %d differs under %s' % (i, [S.show(t)[:50] for k_, t, w in both][:3]))
                        break
    run.ob(key, not problems and npairs >= 1, rule=rule, expected='equal on every pair of compatible paths (%d pairs)' % npairs, found=problems[:3] or 'equal', where=where)
    return not problems


def eq_tests(S, cv, kind, tid, want):
    """what a guard establishes about exact equality: [(a - b, True/False, text)] for `a == b` / `a != b` tests (if-form)
    and for `a.partial_cmp(&b)` (match-form: Equal -> True; Less, Greater, unordered -> False)"""
    t = S.terms[tid]
    if kind == 'ite':
        g_ = parse_guard(S, cv, tid)
        if g_['kind'] == 'eq':
            return [(g_['a'] - g_['b'], want != g_['neg'], g_['text'])]
        return []
    if kind == 'switch' and t[0] == 'a' and t[1] == 'cmp' and len(t[2]) == 2 and want in (0, 1, 2, 3):
        return [(cv.el(t[2][0]) - cv.el(t[2][1]), want == 1, S.show(tid))]
    return []


def check_option_inverse(run, S, name, n, expect_fn=None, rule='K5 guard pass-set', tag='inverse'):
    """`Option` result of inverting the n x n matrix argument a0, decided path by path: a None leaf lies on a path that
    tested det(M) == 0 true, a Some leaf on a path that tested it false and carries expect_fn(M^-1) (default: M^-1 = adj/det
    itself).  Equalities tested on the path (a fast path for affine matrices, say) are substituted first, so the
    determinant test may be that of a sub-block as long as it IS det(M) under the path condition."""
    r = run.use_root(S, name)
    if r is None:
        run.ob('%s:%s:present' % (run.prop, name), False, rule='root-present', expected='root', found='missing')
        return
    where = r.get('span')
    ls = ret_leaves(r['out'])
    bad = [l for g_, l in ls if l['k'] != 'ret']
    if not run.ob('%s:%s:shape' % (run.prop, name), not bad and len(ls) <= 64, rule=rule, expected='Return leaves only (None / Some)', found=[(l['k'], l.get('why')) for l in bad][:2] or len(ls), where=where):
        return
    a = sm('a0', n)
    seen = {'None': 0, 'Some': 0}
    for li, (guards, leaf) in enumerate(ls):
        if path_infeasible(S, guards):
            continue
        sfx = '' if len(ls) == 2 else ':path%d' % li
        key = '%s:%s' % (run.prop, name)
        eqs = _leaf_equalities(S, guards)
        cv0 = Conv(S)
        env, mapping = {}, {}
        for an, tid in eqs.items():
            e_ = cv0.el(tid)
            env[an] = e_
            mapping[A.CTX.atom(an)] = e_
        cv = Conv(S, env=env) if env else cv0
        aM = _subst_struct(a, mapping)
        with path_hyps(S, guards):
            D = A.det(aM)
            det_truth = None
            shown = []
            for kind, tid, want in guards:
                for d, truth, text in eq_tests(S, cv, kind, tid, want):
                    if A.eq(d, D) or A.eq(d, -D):
                        det_truth = truth
                        shown.append(text[:100])
            v = leaf['v']
            if v.get('n') == 'None':
                seen['None'] += 1
                run.ob(key + ':none' + sfx, det_truth is True, rule=rule, expected='None only on a path that found det(M) == 0 (Leibniz determinant, up to sign, under the path condition)',
                       found=shown or [S.show(t)[:80] for k_, t, w in guards][:4], where=where)
            elif v.get('n') == 'Some':
                seen['Some'] += 1
                if not run.ob(key + ':guard' + sfx, det_truth is False, rule=rule, expected='Some only on a path that found det(M) != 0 (exact test, up to sign, under the path condition)',
                              found=shown or [S.show(t)[:80] for k_, t, w in guards][:4], where=where):
                    continue
                if D.zero():
                    run.ob(key + ':guard' + sfx + ':det', False, rule=rule, expected='a non-zero determinant polynomial on this path', found='0', where=where)
                    continue
                adj = A.adjugate(aM)
                Minv = [[adj[c][r_] / D for r_ in range(n)] for c in range(n)]
                exp = expect_fn(Minv, mapping) if expect_fn else Minv
                cmp_struct(run, S, name + sfx.replace(':', '_'), cv.val(v['f'][0]), exp, 'K3 field conformance: N = adj(M)/det(M)', where=where, tag=tag)
            else:
                run.ob(key + ':some' + sfx, False, rule=rule, expected='Option', found=S.showval(v)[:100], where=where)
    run.ob('%s:%s:cases' % (run.prop, name), seen['None'] >= 1 and seen['Some'] >= 1, rule=rule, expected='both a None and a Some outcome exist', found=seen, where=where)


def conjuncts(S, tid):
    """the conjuncts of a boolean term built with the non-short-circuit `&` (`[bool; N] == [true; N]`, `a & b`)"""
    t = S.terms[tid]
    if t[0] == 'a' and t[1] == 'bitand' and len(t[2]) == 2:
        return conjuncts(S, t[2][0]) + conjuncts(S, t[2][1])
    return [tid]


def bool_conjunction(S, out):
    """If the outcome tree is a short-circuit conjunction returning bool, give the list of condition
    term ids (in evaluation order); else None.  Accepts `a && b && c` in MIR shape:
    Ite(a, Ite(b, Ret(c or true), Ret false), Ret false)."""
    conds = []
    o = out
    while True:
        if o['k'] == 'ite':
            e = o['e']
            if not (e['k'] == 'ret' and e['v'].get('i') == '0'):
                return None
            conds.extend(conjuncts(S, o['c']))
            o = o['t']
        elif o['k'] == 'ret':
            v = o['v']
            if v.get('i') == '1':
                return conds
            if 't' in v:
                conds.extend(conjuncts(S, v['t']))
                return conds
            return None
        else:
            return None


def forms4(h, name, g, Ta, Tb, Tr, op, exp, **kw):
    """the four by-value / by-reference spellings of a binary operator"""
    for form, la, lb in (('vv', Ta, Tb), ('vr', Ta, '&' + Tb), ('rv', '&' + Ta, Tb), ('rr', '&' + Ta, '&' + Tb)):
        h.root('%s__%s' % (name, form), '%s(a: %s, b: %s) -> %s' % (g, la, lb, Tr), 'a %s b' % op, ('value', exp), **kw)


def forms2(h, name, g, Ta, Tb, Tr, op, exp, **kw):
    """by-value / by-reference receiver with a by-value right operand"""
    for form, la in (('v', Ta), ('r', '&' + Ta)):
        h.root('%s__%s' % (name, form), '%s(a: %s, b: %s) -> %s' % (g, la, Tb, Tr), 'a %s b' % op, ('value', exp), **kw)


def all_panic(run, S, name, rule='K5 out-of-range index panics'):
    r = run.use_root(S, name)
    if r is None:
        run.ob('%s:%s:present' % (run.prop, name), False, rule='root-present', expected='root', found='missing')
        return False
    ls = ret_leaves(r['out'])
    kinds = sorted({l['k'] for g, l in ls})
    return run.ob('%s:%s:panics' % (run.prop, name), kinds == ['panic'], rule=rule, expected='every path panics', found='leaf kinds %s' % kinds, where=r.get('span'))


def run_specs(run, S, h, custom=None):
    """dispatch the standard spec kinds"""
    for name, (spec, kw) in h.specs.items():
        try:
            _run_one(run, S, name, spec, kw, custom)
        except Exception as ex:   # fail closed: an obligation the rule layer cannot evaluate is reported, never skipped
            import traceback
            run.ob('%s:%s:rule-error' % (run.prop, name), False, rule='rule evaluation', expected='rule evaluates',
                   found='%s: %s' % (type(ex).__name__, ex), where=traceback.format_exc()[-600:])


def _run_one(run, S, name, spec, kw, custom):
    if True:
        kind = spec[0]
        if kind == 'value':
            check_value(run, S, name, spec[1], rule=kw.get('rule', 'K3 ring conformance'), field_div=kw.get('field_div'), allow_panics=kw.get('allow_panics', False))
        elif kind == 'post':
            check_value(run, S, name, spec[2] if len(spec) > 2 else None, post=spec[1], rule=kw.get('rule', 'K3 ring conformance'), field_div=kw.get('field_div'), allow_panics=kw.get('allow_panics', False))
        elif kind == 'panic':
            all_panic(run, S, name)
        elif custom and kind in custom:
            run_custom(run, S, custom[kind], name, spec, kw)
        else:
            raise KeyError(kind)


def report_dropped(run, meta, h=None):
    soft = getattr(h, 'soft', set()) if h is not None else set()
    dropped = meta.get('dropped', {})
    for w, msg in dropped.items():
        if w in soft:
            if h is not None and w in h.specs:
                del h.specs[w]
            # the call on an OWNED receiver (`_mv`) does not type-check although the same call on a reference (`_m`) does: method
            # lookup reaches a different item there (a by-value method of another signature shadows the trait's `&self` / `&mut self`
            # method), so `v.method(..)` in user code no longer means the function the property is about
            if w.endswith('_mv') and (w[:-1] not in dropped) and h is not None and (w[:-1] in h.specs):
                run.ob('%s:%s:resolution' % (run.prop, w), False, rule='api-present', expected='`v.method(..)` on an owned value resolves to the same method as on a reference', found=msg[:300])
            continue
        run.ob('%s:%s:api-missing' % (run.prop, w), False, rule='api-present', expected='harness wrapper compiles against the current API', found=msg)


# ---------------------------------------------------------------- guards
APPROX = {'approx::abs_diff_eq::AbsDiffEq::abs_diff_eq': ('abs_diff', False), 'approx::abs_diff_eq::AbsDiffEq::abs_diff_ne': ('abs_diff', True),
          'approx::relative_eq::RelativeEq::relative_eq': ('relative', False), 'approx::relative_eq::RelativeEq::relative_ne': ('relative', True),
          'approx::ulps_eq::UlpsEq::ulps_eq': ('ulps', False), 'approx::ulps_eq::UlpsEq::ulps_ne': ('ulps', True)}
DEFAULTS = {'approx::abs_diff_eq::AbsDiffEq::default_epsilon', 'approx::relative_eq::RelativeEq::default_max_relative', 'approx::ulps_eq::UlpsEq::default_max_ulps'}


def parse_guard(S, cv, tid):
    """Decode a boolean term: {'kind': 'eq'|'lt'|...|'abs_diff'|'relative'|'ulps'|'other', 'neg': bool, 'a': El, 'b': El,
    'tols': [term ids], 'default_tols': bool, 'gargs': str}"""
    t = S.terms[tid]
    neg = False
    while t[0] == 'a' and t[1] == 'not':
        neg = not neg
        tid = t[2][0]
        t = S.terms[tid]
    if t[0] != 'a':
        return {'kind': 'other', 'neg': neg, 'text': S.show(tid)}
    op, args = t[1], t[2]
    if op in ('eq', 'ne', 'lt', 'le', 'gt', 'ge') and len(args) == 2:
        if op == 'ne':
            op, neg = 'eq', not neg
        return {'kind': op, 'neg': neg, 'a': cv.el(args[0]), 'b': cv.el(args[1]), 'text': S.show(tid)}
    if op == 'call':
        name = S.terms[args[0]][1]
        if name in APPROX:
            kind, n2 = APPROX[name]
            tols = args[4:]
            dflt = True
            for x in tols:
                tt = S.terms[x]
                if not (tt[0] == 'a' and tt[1] == 'call' and S.terms[tt[2][0]][1] in DEFAULTS and len(tt[2]) == 2):
                    dflt = False
            return {'kind': kind, 'neg': neg != n2, 'a': cv.el(args[2]), 'b': cv.el(args[3]), 'tols': list(tols), 'default_tols': dflt,
                    'gargs': S.terms[args[1]][1], 'text': S.show(tid)}
    return {'kind': 'other', 'neg': neg, 'text': S.show(tid)}


def is_zero_test(g, x):
    """guard g compares x with 0 (either order), by exact or approximate equality"""
    if g['kind'] not in ('eq', 'abs_diff', 'relative', 'ulps'):
        return False
    return (A.eq(g['a'], x) and A.eq(g['b'], ZERO)) or (A.eq(g['b'], x) and A.eq(g['a'], ZERO))


def check_fold(run, S, name, init_exp, step, rule='K7 fold pattern', what='sum', step_exp=None, _leaf=None, _iter_ok=None, _n=None, _ignore=()):
    """The root must be exactly one Iterator::fold(iter, init, f): init == init_exp (flat list of El), and the
    separately summarised callable f(acc, item) must satisfy step(acc_leaves, item_leaves, result_leaves) -> bool.
    The root's result must be the fold's result itself.
    (_leaf / _iter_ok: the same rule applied to one leaf of a root that took the first item by hand, see check_accumulate.)"""
    if _leaf is None:
        sr = single_ret(run, S, name)
        if sr is None:
            return False
        r, leaf = sr
    else:
        r, leaf = _leaf
    where = r.get('span')
    key = '%s:%s' % (run.prop, name)
    FOLDS = ('core::iter::traits::iterator::Iterator::fold', 'core::iter::traits::iterator::Iterator::try_fold')
    folds = [e for e in leaf['trace'] if e['fn'] in FOLDS]
    cv = Conv(S)
    # adaptors in front of the fold must be transparent: cloned / copied, or map with a closure returning its item (`|q| *q`)
    adaptors = [e for e in leaf['trace'] if e['fn'] not in FOLDS and e['ret'] not in _ignore]
    transparent = {}
    for e_ in adaptors:
        short = e_['fn'].rsplit('::', 1)[-1]
        ok_ = e_['fn'] in ('core::iter::traits::iterator::Iterator::cloned', 'core::iter::traits::iterator::Iterator::copied')
        if e_['fn'] == 'core::iter::traits::iterator::Iterator::map':
            lam_ = e_.get('lambda', {})
            if 'out' in lam_ and lam_['out']['k'] == 'ret' and 'item' in lam_:
                def thr(x):
                    if isinstance(x, dict) and 'ref' in x:
                        return thr(x['val'])
                    return [thr(y) for y in x] if isinstance(x, list) else x
                got_, item_ = flat(thr(cv.val(lam_['out']['v']))), flat(thr(cv.val(lam_['item'])))
                ok_ = len(got_) == len(item_) and all(A.eq(el_of(x), el_of(y)) for x, y in zip(got_, item_))
        transparent[e_['ret']] = (ok_, short)
    if not run.ob(key + ':fold', len(folds) == 1 and all(ok_ for ok_, _ in transparent.values()), rule=rule, expected='the body is one Iterator::fold over the argument iterator (behind value-preserving adaptors at most)',
                  found=[e['fn'] for e in leaf['trace']], where=where):
        return False
    e = folds[0]
    itv = e['args'][0]
    iv_ = itv
    while isinstance(iv_, dict) and 'r' in iv_ and isinstance(iv_['r'].get('val'), dict):
        iv_ = iv_['r']['val']          # `(&mut iter).try_fold(..)`: the iterator behind the mutable borrow
    while isinstance(iv_, dict) and 'a' in iv_ and iv_['a'] and transparent:
        iv_ = iv_['a'][0]      # an adaptor struct shaped as (inner iterator, closure)
    tid = iv_.get('t') if isinstance(iv_, dict) else None
    # strip the adaptor results: proj(call, 0) / call(adaptor, gargs, inner, ...)
    for _ in range(8):
        if tid is None:
            break
        t_ = S.terms[tid]
        if t_[0] == 'a' and t_[1] == 'proj' and S.terms[t_[2][1]] == ['i', '0']:
            tid = t_[2][0]
        elif tid in transparent and t_[0] == 'a' and t_[1] == 'call' and len(t_[2]) >= 3:
            tid = t_[2][2]
        else:
            break
    it_ok = (tid is not None and S.terms[tid] == ['v', 'a0']) if _iter_ok is None else (tid is not None and _iter_ok(tid))
    run.ob(key + ':iter', it_ok, rule=rule, expected='folds the caller\'s iterator itself', found=S.showval(itv)[:100], where=where)
    init = flat(cv.val(e['args'][1]))
    ok = len(init) == len(init_exp) and all(A.eq(el_of(x), y) for x, y in zip(init, init_exp))
    run.ob(key + ':init', ok, rule=rule, expected='initial accumulator = %s' % [A.show(x) for x in init_exp], found=[A.show(el_of(x)) if isinstance(x, (El, int)) else str(x) for x in init], where=where)
    lam = e.get('lambda', {})
    if not run.ob(key + ':callable', 'out' in lam and lam['out']['k'] == 'ret', rule=rule, expected='the folding callable summarises to one Return', found=str(lam)[:300], where=where):
        return False
    n = len(init_exp) if _n is None else _n
    lam_v = lam['out']['v']
    is_try = e['fn'].endswith('try_fold')
    if is_try:
        # `try_fold(init, |acc, x| Ok(step))` that never breaks is the fold with that step; the result is unwrapped below
        wrap_ok = isinstance(lam_v, dict) and lam_v.get('n') in ('Ok', 'Some', 'Continue') and len(lam_v.get('f', [])) == 1
        if not run.ob(key + ':never-breaks', wrap_ok, rule=rule, expected='the try_fold callable always continues (returns Ok / Some / Continue of the step)', found=S.showval(lam_v)[:160], where=where):
            return False
        lam_v = lam_v['f'][0]
    res = flat(cv.val(lam_v))
    names = [t_[1] for t_ in S.terms if t_[0] == 'v' and (t_[1].startswith('acc') or t_[1].startswith('item'))]
    acc_names = sorted([x for x in set(names) if x.startswith('acc')], key=lambda s_: names.index(s_))
    item_names = sorted([x for x in set(names) if x.startswith('item')], key=lambda s_: names.index(s_))
    if step_exp is not None and 'acc' in lam and 'item' in lam:
        # accumulator and item leaves in field order, whatever their types (a scalar accumulator wrapped once at the end
        # is as good as an accumulator of the compound type)
        def through_refs(x):
            if isinstance(x, dict) and 'ref' in x:
                return through_refs(x['val'])
            if isinstance(x, list):
                return [through_refs(y) for y in x]
            return x
        accl = [el_of(x) for x in flat(through_refs(cv.val(lam['acc'])))]
        iteml = [el_of(x) for x in flat(through_refs(cv.val(lam['item'])))]
        exp_ = step_exp(accl, iteml) if len(accl) == n and len(iteml) == n else []
        okstep = len(res) == n and len(exp_) == n and all(A.eq(el_of(x), y) for x, y in zip(res, exp_))
    else:
        okstep = len(res) == n and step(res)
    run.ob(key + ':step', okstep, rule=rule, expected='callable(acc, item) = acc %s item, accumulator on the left' % ('+' if what == 'sum' else '*'), found=[A.show(x) if isinstance(x, El) else str(x) for x in res][:6], where=where)
    # result of the root is the fold result
    rv = leaf['v']
    rt = flat(cv.val(rv))
    ft = e['ret']
    if is_try:
        # every leaf of the result is a projection, in field order, of the payload of the try_fold result
        call_atom = _single_atom(cv.el(ft))
        paths = []
        okp = call_atom is not None
        for x in rt:
            a_ = _single_atom(el_of(x)) if isinstance(x, (El, int)) else None
            if a_ is None:
                okp = False
                break
            base, path = proj_path(a_)
            kd = A.CTX.kind[base]
            if not (kd[0] == 'fn' and kd[1] == 'variant' and _single_atom(kd[2][0]) == call_atom and path and path[0] == 0):
                okp = False
                break
            paths.append(path)
        okp = okp and paths == sorted(paths) and len(set(paths)) == len(paths)
        run.ob(key + ':result', okp, rule=rule, expected='returns the payload of the try_fold result unchanged', found=S.showval(rv)[:120], where=where)
        return True
    want = flat(cv.val(_shape_like(S, rv, ft)))
    run.ob(key + ':result', len(rt) == len(want) and all(A.eq(el_of(x), el_of(y)) for x, y in zip(rt, want)), rule=rule, expected='returns the fold result unchanged', found=S.showval(rv)[:120], where=where)
    return True


def _single_atom(el):
    if not isinstance(el, El) or len(el.t) != 1:
        return None
    (m, c), = el.t.items()
    if c != 1 or len(m) != 1 or m[0][1] != 1:
        return None
    return m[0][0]


def proj_path(atom):
    """atom = proj(...proj(X, i1)..., ik) (through deref): (atom id of X, (i1, ..., ik))"""
    path = []
    v = atom
    while True:
        kd = A.CTX.kind[v]
        if kd[0] == 'fn' and kd[1] == 'proj' and len(kd[2]) == 2 and kd[2][1].is_const():
            inner = _single_atom(kd[2][0])
            if inner is None:
                break
            path.append(int(kd[2][1].const()))
            v = inner
        elif kd[0] == 'fn' and kd[1] == 'deref' and len(kd[2]) == 1:
            inner = _single_atom(kd[2][0])
            if inner is None:
                break
            v = inner
        else:
            break
    return v, tuple(reversed(path))


def _leaf_tids(v, out=None):
    if out is None:
        out = []
    if 'a' in v:
        for x in v['a']:
            _leaf_tids(x, out)
    elif 't' in v:
        out.append(v['t'])
    elif 'r' in v:
        _leaf_tids(v['r']['val'], out)
    elif 'e' in v:
        for x in v['f']:
            _leaf_tids(x, out)
    else:
        out.append(None)
    return out


def _exact_key(S, tid, memo):
    """strict_key modulo the neutral elements that are exact in floating point and for integers: x + 0, 0 + x, x - 0"""
    k = memo.get(tid)
    if k is not None:
        return k
    t = S.terms[tid]
    is_zero = lambda u: (S.terms[u][0] == 'i' and S.terms[u][1] == '0') or (S.terms[u][0] == 'f' and Conv(S).el(u).is_const() and Conv(S).el(u).const() == 0)
    if t[0] == 'a' and t[1] == 'add' and len(t[2]) == 2 and (is_zero(t[2][0]) or is_zero(t[2][1])):
        k = _exact_key(S, t[2][1] if is_zero(t[2][0]) else t[2][0], memo)
    elif t[0] == 'a' and t[1] == 'sub' and len(t[2]) == 2 and is_zero(t[2][1]):
        k = _exact_key(S, t[2][0], memo)
    elif t[0] == 'a':
        ks = [_exact_key(S, x, memo) for x in t[2]]
        if t[1] in ('add', 'mul'):
            ks = sorted(ks, key=repr)
        k = (t[1],) + tuple(ks)
    elif t[0] == 'f':
        k = ('f', t[1])
    else:
        k = (t[0], t[1])
    memo[tid] = k
    return k


def _strict_sum_step(S, cv, v_prev, v_cur, item):
    """None when every leaf of v_cur is exactly (the matching leaf of v_prev) + (the matching item component); else a description"""
    tp, tc = _leaf_tids(v_prev), _leaf_tids(v_cur)
    if len(tp) != len(tc) or len(tc) != len(item) or None in tp or None in tc:
        return 'shape'
    memo = {}

    def is_zero(u):
        t_ = S.terms[u]
        return (t_[0] == 'i' and t_[1] == '0') or (t_[0] == 'f' and cv.el(u).is_const() and cv.el(u).const() == 0)

    def strip(u):
        # remove exact neutral layers: x + 0, 0 + x, x - 0
        while True:
            t_ = S.terms[u]
            if t_[0] == 'a' and t_[1] == 'add' and len(t_[2]) == 2 and is_zero(t_[2][0]):
                u = t_[2][1]
            elif t_[0] == 'a' and t_[1] in ('add', 'sub') and len(t_[2]) == 2 and is_zero(t_[2][1]):
                u = t_[2][0]
            else:
                return u
    for i, (a_, c_) in enumerate(zip(tp, tc)):
        want_item = item[i]

        def is_item(u):
            u = strip(u)
            t_ = S.terms[u]
            if t_[0] == 'a' and t_[1] in ('add', 'sub', 'mul', 'div', 'rem', 'neg'):
                return False        # an arithmetic expression, whatever it simplifies to over the reals
            e = cv.el(u)
            return _single_atom(e) is not None and A.eq(e, want_item)
        a1, c1 = strip(a_), strip(c_)
        if is_zero(a1):
            if not is_item(c1):
                return 'component %d: %s' % (i, S.show(c_)[:120])
            continue
        t = S.terms[c1]
        if not (t[0] == 'a' and t[1] == 'add' and len(t[2]) == 2):
            return 'component %d: %s' % (i, S.show(c_)[:120])
        ka = _exact_key(S, a1, memo)
        x, y = t[2]
        if not ((_exact_key(S, x, memo) == ka and is_item(y)) or (_exact_key(S, y, memo) == ka and is_item(x))):
            return 'component %d: %s' % (i, S.show(c_)[:120])
    return None


def check_accumulate(run, S, name, init_exp, step_exp, fold_step, rule='K7 fold pattern', what='sum', max_iter=5):
    """Sum / Product over an opaque iterator, in either idiom:
    fold idiom  - exactly one Iterator::fold(iter, init, f) with f(acc, item) = step (check_fold);
    loop idiom  - `for x in iter { acc = acc (+) x }`: the outcome tree is the chain  next_1 == None -> v_0,
                  next_2 == None -> v_1, ...;  v_0 = init and v_k = step_exp(v_{k-1}, item_k) for the first iterations,
                  where item_k are the components of the payload of the k-th next() of the SAME iterator
                  (the same loop body is unrolled each time, so the first iterations characterise it)."""
    r = run.use_root(S, name)
    if r is None:
        run.ob('%s:%s:present' % (run.prop, name), False, rule='root-present', expected='harness root summarised', found='missing')
        return False
    o = r['out']
    t0 = S.terms[o['c']] if o['k'] == 'switch' else None
    if not (t0 and t0[0] == 'a' and t0[1] == 'discr'):
        return check_fold(run, S, name, init_exp, fold_step, rule=rule, what=what, step_exp=step_exp)
    where = r.get('span')
    key = '%s:%s' % (run.prop, name)
    chain = []
    while o is not None and o['k'] == 'switch':
        t = S.terms[o['c']]
        arms = {int(v): sub for v, sub in o['arms']}
        if not (t[0] == 'a' and t[1] == 'discr' and set(arms) == {0, 1} and o['other'] is None and arms[0]['k'] == 'ret'):
            break
        chain.append((t[2][0], arms[0]))
        o = arms[1]
    tail_ok = o is not None and o['k'] == 'cut'
    if len(chain) == 1 and o is not None and o['k'] == 'ret' and any(e['fn'] == 'core::iter::traits::iterator::Iterator::fold' for e in o['trace']):
        # `match iter.next() { None => E0, Some(first) => iter.fold(first, f) }`: the same as fold(E0, f) when E0 is what the empty
        # input must give and E0 (+) first = first
        cv = Conv(S)
        n = len(init_exp)
        v0 = [el_of(x) for x in flat(cv.val(chain[0][1]['v']))]
        run.ob(key + ':init', len(v0) == n and all(A.eq(x, y) for x, y in zip(v0, init_exp)), rule=rule, expected='no items: %s' % [A.show(x) for x in init_exp][:4], found=[A.show(x) for x in v0][:4], where=where)
        fe = [e for e in o['trace'] if e['fn'] == 'core::iter::traits::iterator::Iterator::fold'][0]
        first = [el_of(x) for x in flat(cv.val(fe['args'][1]))]
        nk = _single_atom(cv.el(chain[0][0]))
        good = nk is not None and len(first) in (1, n)
        paths = []
        for x in first:
            a_ = _single_atom(x)
            if a_ is None:
                good = False
                break
            base, path = proj_path(a_)
            kd = A.CTX.kind[base]
            if not (kd[0] == 'fn' and kd[1] == 'variant' and _single_atom(kd[2][0]) == nk and path and path[0] == 0):
                good = False
                break
            paths.append(path)
        # (the item moved as one opaque value - path [0] - or component by component in field order)
        good = good and (paths == [(0,)] or (len(paths) == n and paths == sorted(paths) and len(set(map(tuple, paths))) == n))
        run.ob(key + ':first', good, rule=rule, expected='the fold starts from the item returned by the first next(), components in order', found=[A.show(x, 3) for x in first][:4], where=where)
        if not good:
            return False
        item = [El.v('item1.%d' % i) for i in range(n)]
        neutral = step_exp(list(init_exp), item)
        run.ob(key + ':neutral', len(neutral) == n and all(A.eq(x, y) for x, y in zip(neutral, item)), rule=rule,
               expected='%s (%s) first = first, so starting from the first item equals starting from the neutral element' % ('zero' if what == 'sum' else 'one', '+' if what == 'sum' else '*'),
               found=[A.show(x, 4) for x in neutral][:4], where=where)

        def same_iter(tid):
            t_ = S.terms[tid]
            return t_[0] == 'a' and t_[1] == 'mut' and t_[2] and t_[2][0] == chain[0][0]
        return check_fold(run, S, name, first, fold_step, rule=rule, what=what, step_exp=step_exp, _leaf=(r, o), _iter_ok=same_iter, _n=n, _ignore=(chain[0][0],))
    if not run.ob(key + ':loop', len(chain) >= 3 and tail_ok, rule=rule, expected='an accumulation loop: next() == None returns the accumulator, Some(x) continues (unrolled to the loop bound)',
                  found='%d iterations, tail %s' % (len(chain), o['k'] if o else None), where=where):
        return False
    cv = Conv(S)
    n = len(init_exp)
    v0 = [el_of(x) for x in flat(cv.val(chain[0][1]['v']))]
    run.ob(key + ':init', len(v0) == n and all(A.eq(x, y) for x, y in zip(v0, init_exp)), rule=rule, expected='no items: %s' % [A.show(x) for x in init_exp][:4], found=[A.show(x) for x in v0][:4], where=where)
    # the iterator: next_1 on the caller's iterator, next_{k+1} on the same iterator after next_k
    seq_ok = 'a0' in S.show(chain[0][0])
    for k in range(1, len(chain)):
        tk = S.terms[chain[k][0]]
        prev = chain[k - 1][0]
        inner = S.terms[tk[2][-1]] if tk[0] == 'a' and tk[2] else None
        if not (inner and inner[0] == 'a' and inner[1] == 'mut' and inner[2][0] == prev):
            seq_ok = False
    run.ob(key + ':iter', seq_ok, rule=rule, expected='every next() is taken from the caller\'s iterator, one after the other', found=S.show(chain[1][0])[:160], where=where)
    prev = v0
    seen = set().union(*[x.atoms() for x in v0]) if v0 else set()
    allok = True
    for k in range(1, min(len(chain), max_iter + 1)):
        vk = [el_of(x) for x in flat(cv.val(chain[k][1]['v']))]
        atoms = set().union(*[x.atoms() for x in vk]) if vk else set()
        fresh = sorted(atoms - seen)
        nk = _single_atom(cv.el(chain[k - 1][0]))
        items = []
        good = nk is not None
        for a_ in fresh:
            base, path = proj_path(a_)
            kd = A.CTX.kind[base]
            if not (kd[0] == 'fn' and kd[1] == 'variant' and _single_atom(kd[2][0]) == nk and path and path[0] == 0):
                good = False
                break
            items.append((path, El.a(a_)))
        items.sort(key=lambda x: x[0])
        item = [x for _, x in items]
        if not (good and len(item) == n and len(vk) == n):
            run.ob('%s:step%d:items' % (key, k), False, rule=rule, expected='iteration %d reads exactly the %d components of the item returned by the %d-th next()' % (k, n, k),
                   found=[A.show(El.a(a_), 3) for a_ in fresh][:6], where=where)
            allok = False
            break
        exp = step_exp(prev, item)
        ok = all(A.eq(x, y) for x, y in zip(vk, exp))
        if ok and what == 'sum':
            # "equals the LEFT FOLD WITH +": one addition of the previous total and the item per component, nothing else - compared
            # structurally (a + b = b + a, x + 0 = x only), so that a compensated (Kahan) or re-associated summation, which is the
            # same real number but another floating-point result, is not accepted
            bad_ = _strict_sum_step(S, cv, chain[k - 1][1]['v'], chain[k][1]['v'], [x for _, x in items])
            if bad_ is not None:
                run.ob('%s:step%d:exact' % (key, k), False, rule=rule, expected='component i after %d items = (component i after %d items) + (component i of item %d): a single addition' % (k, k - 1, k),
                       found=bad_, where=where)
                ok = False
        run.ob('%s:step%d' % (key, k), ok, rule=rule, expected='after %d items: acc %s item, accumulator on the left' % (k, '+' if what == 'sum' else '*'), found=[A.show(x, 4) for x in vk][:4], where=where)
        allok = allok and ok
        prev = vk
        seen |= atoms
    return allok


def _shape_like(S, v, t):
    """the engine shapes an uninterpreted result of term t as nested proj(t, i); rebuild that shape following v"""
    return v
