"""Mathematical definitions used as oracles.  Nothing here reads cgmath source."""
import math
from contextlib import contextmanager
from fractions import Fraction as Fr

import algebra as A
from algebra import El, ZERO, ONE

PI = Fr(math.pi)
DEG2RAD = Fr(math.pi / 180.0)
RAD2DEG = Fr(180.0 / math.pi)
TWO_PI = Fr(math.pi * 2.0)
HALF = Fr(1, 2)


# ---------------------------------------------------------------- quaternions: (s, [x, y, z])
def qmul(p, q):
    """Hamilton product generated from i^2 = j^2 = k^2 = ijk = -1"""
    # basis: 0 = 1, 1 = i, 2 = j, 3 = k ; table[(a,b)] = (sign, basis)
    table = {}
    for a in range(4):
        table[(0, a)] = (1, a)
        table[(a, 0)] = (1, a)
    for a in (1, 2, 3):
        table[(a, a)] = (-1, 0)
    for (a, b, c) in ((1, 2, 3), (2, 3, 1), (3, 1, 2)):
        table[(a, b)] = (1, c)
        table[(b, a)] = (-1, c)
    pc = [p[0]] + list(p[1])
    qc = [q[0]] + list(q[1])
    out = [ZERO] * 4
    for a in range(4):
        for b in range(4):
            sg, c = table[(a, b)]
            out[c] = out[c] + pc[a] * qc[b] * sg
    return out[0], out[1:]


def qconj(q):
    return q[0], [-x for x in q[1]]


def qnorm2(q):
    return q[0] * q[0] + A.dot(q[1], q[1])


def qrot(q, v):
    """v + 2 qv x (qv x v + s v)"""
    s, qv = q
    inner = A.vadd(A.cross(qv, v), A.vscale(v, s))
    return A.vadd(v, A.vscale(A.cross(qv, inner), 2))


def qsandwich(q, v):
    """vector part of q (0,v) conj(q)"""
    r = qmul(qmul(q, (ZERO, v)), qconj(q))
    return r[1]


def q_matrix(q):
    """column-major rotation matrix of a quaternion: column c = sandwich action on e_c (homogeneous form)"""
    cols = []
    for c in range(3):
        e = [ONE if i == c else ZERO for i in range(3)]
        cols.append(qsandwich(q, e))
    return cols


@contextmanager
def hyps(*rels):
    """rels: (leading atom name, power, El)"""
    saved = dict(A.CTX.hyps)
    for name, k, poly in rels:
        atom = A.CTX.atom(name)
        cur = A.CTX.hyps.get(atom)
        if cur is not None and cur[0] == 1:
            # the atom is already fixed by a path condition (x := value): the stronger fact stays, and the relation is
            # re-oriented on another atom after substituting it (|q| = 1 with s := 1 becomes x^2 + y^2 + z^2 = 0)
            from core import _hyp_from_difference
            d = A.deep_substitute(El.a(atom, k) - poly, {atom: cur[1]})
            try:
                h = _hyp_from_difference(d)
            except Exception:
                h = None
            if h is not None and h[0] not in A.CTX.hyps:
                A.CTX.hyps[h[0]] = (h[1], h[2])
            continue
        A.add_hyp(name, k, poly)
    try:
        yield
    finally:
        A.CTX.hyps.clear()
        A.CTX.hyps.update(saved)


def unit_quat_hyp(name):
    """name.s^2 = 1 - x^2 - y^2 - z^2"""
    x, y, z = [El.v('%s.v.%s' % (name, c)) for c in 'xyz']
    return ('%s.s' % name, 2, ONE - x * x - y * y - z * z)


def unit_vec_hyp(name, lead='z', comps='xyz'):
    rest = [El.v('%s.%s' % (name, c)) for c in comps if c != lead]
    r = ONE
    for x in rest:
        r = r - x * x
    return ('%s.%s' % (name, lead), 2, r)


# ---------------------------------------------------------------- rotations
def skew(a):
    """[a]_x column-major: [a]_x v = a x v"""
    cols = []
    for c in range(3):
        e = [ONE if i == c else ZERO for i in range(3)]
        cols.append(A.cross(a, e))
    return cols


def rodrigues(a, s, c):
    """c I + s [a]_x + (1 - c) a a^T, column-major"""
    K = skew(a)
    return [[(c if r == k else ZERO) + s * K[k][r] + (ONE - c) * a[k] * a[r] for r in range(3)] for k in range(3)]


def rot_x(s, c):
    return [[ONE, ZERO, ZERO], [ZERO, c, s], [ZERO, -s, c]]


def rot_y(s, c):
    return [[c, ZERO, -s], [ZERO, ONE, ZERO], [s, ZERO, c]]


def rot_z(s, c):
    return [[c, s, ZERO], [-s, c, ZERO], [ZERO, ZERO, ONE]]


def rot2(s, c):
    """2-D counter-clockwise rotation: (1,0) -> (c,s), (0,1) -> (-s,c)"""
    return [[c, s], [-s, c]]


def embed4(m3):
    return [col + [ZERO] for col in m3] + [[ZERO, ZERO, ZERO, ONE]]


def sincos(t):
    return A.fn('sin', t), A.fn('cos', t)


def selfcheck():
    """Relations between the spec tables (DESIGN §5.6).  Failing = checker error, never a violation."""
    p = (El.v('p.s'), [El.v('p.v.%s' % c) for c in 'xyz'])
    q = (El.v('q.s'), [El.v('q.v.%s' % c) for c in 'xyz'])
    r = (El.v('r.s'), [El.v('r.v.%s' % c) for c in 'xyz'])
    v = [El.v('v.%s' % c) for c in 'xyz']

    def qeq(a, b):
        return A.eq(a[0], b[0]) and all(A.eq(x, y) for x, y in zip(a[1], b[1]))
    assert qeq(qmul(qmul(p, q), r), qmul(p, qmul(q, r))), 'associativity'
    assert A.eq(qnorm2(qmul(p, q)), qnorm2(p) * qnorm2(q)), 'norm multiplicative'
    assert qeq(qconj(qmul(p, q)), qmul(qconj(q), qconj(p))), 'conj antihomomorphism'
    one = (ONE, [ZERO, ZERO, ZERO])
    assert qeq(qmul(one, q), q) and qeq(qmul(q, one), q)
    # distributivity
    pq_r = qmul((p[0] + q[0], A.vadd(p[1], q[1])), r)
    s1, s2 = qmul(p, r), qmul(q, r)
    assert qeq(pq_r, (s1[0] + s2[0], A.vadd(s1[1], s2[1])))
    # q * inverse = 1
    n2 = qnorm2(q)
    qi = (q[0] / n2, [-x / n2 for x in q[1]])
    assert qeq(qmul(q, qi), one) and qeq(qmul(qi, q), one)
    with hyps(unit_quat_hyp('q')):
        # shortcut formula = sandwich, for unit q; length preserved
        sw = qsandwich(q, v)
        sh = qrot(q, v)
        assert all(A.eq(x, y) for x, y in zip(sw, sh)), 'sandwich'
        assert A.eq(A.dot(sh, sh), A.dot(v, v)), 'length preserved'
        M = q_matrix(q)
        # orthonormal, det +1, acts like qrot
        MtM = A.matmul(A.transpose(M), M)
        assert all(A.eq(MtM[c][r_], ONE if c == r_ else ZERO) for c in range(3) for r_ in range(3))
        assert A.eq(A.det(M), ONE)
        assert all(A.eq(x, y) for x, y in zip(A.matvec(M, v), sh))
    with hyps(unit_quat_hyp('q'), unit_quat_hyp('p')):
        Mp, Mq, Mpq = q_matrix(p), q_matrix(q), q_matrix(qmul(p, q))
        P = A.matmul(Mp, Mq)
        assert all(A.eq(P[c][r_], Mpq[c][r_]) for c in range(3) for r_ in range(3)), 'homomorphism'
        lhs = qrot(qmul(p, q), v)
        rhs = qrot(p, qrot(q, v))
        assert all(A.eq(x, y) for x, y in zip(lhs, rhs)), '(pq)v = p(qv)'
    # Rodrigues: fixes the axis, equals R_x/R_y/R_z on unit axes, orthonormal det 1 under s^2+c^2=1, |a|=1
    a = [El.v('a.%s' % c) for c in 'xyz']
    s, c = El.v('S'), El.v('C')
    R = rodrigues(a, s, c)
    with hyps(unit_vec_hyp('a'), ('S', 2, ONE - c * c)):
        assert all(A.eq(x, y) for x, y in zip(A.matvec(R, a), a)), 'axis fixed'
        RtR = A.matmul(A.transpose(R), R)
        assert all(A.eq(RtR[i][j], ONE if i == j else ZERO) for i in range(3) for j in range(3))
        assert A.eq(A.det(R), ONE)
        # action formula of the statement
        act = A.vadd(A.vadd(A.vscale(v, c), A.vscale(A.cross(a, v), s)), A.vscale(a, A.dot(a, v) * (ONE - c)))
        assert all(A.eq(x, y) for x, y in zip(A.matvec(R, v), act))
    for axis, tab in (([ONE, ZERO, ZERO], rot_x), ([ZERO, ONE, ZERO], rot_y), ([ZERO, ZERO, ONE], rot_z)):
        Ra = rodrigues(axis, s, c)
        T = tab(s, c)
        assert all(A.eq(Ra[i][j], T[i][j]) for i in range(3) for j in range(3)), 'elementary = rodrigues'
    # half-angle quaternion acts as Rodrigues with c = ch^2 - sh^2, s = 2 sh ch
    sh, ch = El.v('SH'), El.v('CH')
    qa = (ch, A.vscale(a, sh))
    with hyps(unit_vec_hyp('a'), ('SH', 2, ONE - ch * ch)):
        Rq = rodrigues(a, sh * ch * 2, ch * ch - sh * sh)
        got = qrot(qa, v)
        assert all(A.eq(x, y) for x, y in zip(got, A.matvec(Rq, v))), 'half-angle quaternion = rodrigues'
    # angle additivity about a common axis (2-D and 3-D z)
    s1, c1, s2, c2 = El.v('S1'), El.v('C1'), El.v('S2'), El.v('C2')
    P = A.matmul(rot2(s1, c1), rot2(s2, c2))
    Q = rot2(s1 * c2 + c1 * s2, c1 * c2 - s1 * s2)
    assert all(A.eq(P[i][j], Q[i][j]) for i in range(2) for j in range(2))
    # Lagrange
    u = [El.v('u.%s' % c_) for c_ in 'xyz']
    uxv = A.cross(u, v)
    assert A.eq(A.dot(uxv, uxv) + A.dot(u, v) * A.dot(u, v), A.dot(u, u) * A.dot(v, v))
    return True
