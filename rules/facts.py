"""Fact extraction: run the mirsum driver over /repo's working tree and a generated harness crate.

Every call rebuilds from the current content of /repo (a content hash keys the cache, so an
edited tree is always re-analysed); nothing is executed — `cargo check` only type-checks.
"""
import hashlib
import json
import os
import re
import shutil
import subprocess
import tempfile
import time

from summ import Summaries

VERIF = os.path.dirname(os.path.dirname(os.path.abspath(__file__)))
REPO = os.environ.get('VERIF_REPO', '/repo')
ENGINE = os.path.join(VERIF, 'engine', 'target', 'release', 'mirsum')
CACHE = os.path.join(VERIF, '.cache')


class BuildError(Exception):
    """/repo itself does not compile under the driver"""


class HarnessError(Exception):
    def __init__(self, msg, failing):
        Exception.__init__(self, msg)
        self.failing = failing


def _repo_hash():
    h = hashlib.sha256()
    files = []
    for root, dirs, fs in os.walk(os.path.join(REPO, 'src')):
        dirs.sort()
        for f in sorted(fs):
            files.append(os.path.join(root, f))
    for f in ('build.rs', 'Cargo.toml', 'Cargo.lock'):
        files.append(os.path.join(REPO, f))
    for f in files:
        h.update(f.encode())
        try:
            h.update(open(f, 'rb').read())
        except OSError:
            h.update(b'<missing>')
    return h.hexdigest()


def _engine_hash():
    try:
        st = os.stat(ENGINE)
    except OSError:
        raise SystemExit('CHECK-ERROR: engine not built (run ./setup.sh)')
    return '%d-%d' % (st.st_size, int(st.st_mtime))


def _sysroot_lib():
    out = subprocess.run(['rustc', '+nightly', '--print', 'sysroot'], capture_output=True, text=True, check=True)
    return os.path.join(out.stdout.strip(), 'lib')


CARGO_TOML = '''[package]
name = "harness"
version = "0.1.0"
edition = "2018"
[lib]
path = "src/lib.rs"
[dependencies]
cgmath = { path = "%(repo)s", default-features = false, features = [%(features)s] }
%(extra)s
[workspace]
'''

LIB_HEAD = '''#![allow(unused, non_snake_case, clippy::all)]
extern crate cgmath;
use cgmath::*;
use cgmath::num_traits::{self, NumCast, Float};
use std::ops::*;
use std::iter::{Sum, Product};
// interpreted in place of the slice sorts of std (stable insertion sort, same generic signatures)
pub fn __mirsum_sort_by<T, F: FnMut(&T, &T) -> std::cmp::Ordering>(s: &mut [T], mut f: F) { let n = s.len(); let mut i = 1; while i < n { let mut j = i; while j > 0 && f(&s[j], &s[j - 1]) == std::cmp::Ordering::Less { s.swap(j, j - 1); j -= 1; } i += 1; } }
pub fn __mirsum_sort_by_key<T, K: Ord, F: FnMut(&T) -> K>(s: &mut [T], mut f: F) { let n = s.len(); let mut i = 1; while i < n { let mut j = i; while j > 0 && f(&s[j]) < f(&s[j - 1]) { s.swap(j, j - 1); j -= 1; } i += 1; } }
'''


def _run_cargo(work, outdir, inventory, roots_filter=None, local=None, loop_bound=None):
    env = dict(os.environ)
    env.update({
        'CARGO_NET_OFFLINE': 'true',
        'LD_LIBRARY_PATH': _sysroot_lib() + ':' + env.get('LD_LIBRARY_PATH', ''),
        'MIRSUM_OUT': outdir,
        'RUSTFLAGS': '-Zmir-opt-level=0 -Zalways-encode-mir -Awarnings -Cdebug-assertions=off -Coverflow-checks=on',
        'RUSTC_WRAPPER': ENGINE,
        'CARGO_TARGET_DIR': os.path.join(work, 'target'),
        'CARGO_INCREMENTAL': '0',
    })
    env.pop('RUSTC_WORKSPACE_WRAPPER', None)
    if inventory:
        env['MIRSUM_INVENTORY'] = '1'
    else:
        env.pop('MIRSUM_INVENTORY', None)
    if roots_filter:
        env['MIRSUM_ROOTS'] = roots_filter
    env.pop('MIRSUM_LOCAL', None)
    env.pop('MIRSUM_LOOP_BOUND', None)
    if local:
        env['MIRSUM_LOCAL'] = local
    if loop_bound:
        env['MIRSUM_LOOP_BOUND'] = str(loop_bound)
    p = subprocess.run(['cargo', '+nightly', 'check', '--offline', '--lib', '--message-format=short', '-j', '16'],
                       cwd=os.path.join(work, 'harness'), env=env, capture_output=True, text=True)
    return p


def extract(tag, harness_src, features=(), extra_deps='', inventory=False, use_cache=True, local=None, loop_bound=None):
    """Returns (Summaries, inventory-or-None, meta).  harness_src: Rust source, one wrapper fn per line."""
    os.makedirs(CACHE, exist_ok=True)
    extra = [f for f in os.environ.get('VERIF_FEATURES_EXTRA', '').split(',') if f]
    if extra:
        features = tuple(features) + tuple(f for f in extra if f not in features)
    rh = _repo_hash()
    key = hashlib.sha256(('%s|%s|%s|%s|%s|%s|%s|%s' % (rh, _engine_hash(), LIB_HEAD + harness_src, ','.join(features), extra_deps, inventory, local, loop_bound)).encode()).hexdigest()[:24]
    cdir = os.path.join(CACHE, key)
    meta_path = os.path.join(cdir, 'meta.json')
    if use_cache and os.path.exists(meta_path) and os.environ.get('VERIF_NOCACHE') != '1':
        meta = json.load(open(meta_path))
        meta['cached'] = True
        meta['cdir'] = cdir
        inv = json.load(open(os.path.join(cdir, 'inventory.json'))) if inventory else None
        return Summaries(os.path.join(cdir, 'summaries.json')), inv, meta
    t0 = time.time()
    work = tempfile.mkdtemp(prefix='verif-%s-' % tag)
    try:
        h = os.path.join(work, 'harness')
        os.makedirs(os.path.join(h, 'src'))
        outdir = os.path.join(work, 'out')
        os.makedirs(outdir)
        with open(os.path.join(h, 'Cargo.toml'), 'w') as f:
            f.write(CARGO_TOML % {'repo': REPO, 'features': ', '.join('"%s"' % x for x in features), 'extra': extra_deps})
        shutil.copy(os.path.join(REPO, 'Cargo.lock'), os.path.join(h, 'Cargo.lock'))
        lines = [l for l in harness_src.split('\n')]
        dropped = {}
        for attempt in range(6):
            with open(os.path.join(h, 'src', 'lib.rs'), 'w') as f:
                f.write(LIB_HEAD + '\n'.join(lines) + '\n')
            p = _run_cargo(work, outdir, inventory, local=local, loop_bound=loop_bound)
            if p.returncode == 0:
                break
            err = p.stderr
            # did cgmath (or a dependency) fail, or the harness?
            if re.search(r'could not compile `(?!harness)', err):
                raise BuildError(err[-6000:])
            nhead = LIB_HEAD.count('\n')
            bad = {}
            for m in re.finditer(r'^src/lib\.rs:(\d+):\d+: error(\[E\d+\])?: (.*)$', err, re.M):
                ln = int(m.group(1)) - nhead - 1
                bad.setdefault(ln, m.group(3))
            if not bad:
                raise BuildError(err[-6000:])
            for ln, msg in bad.items():
                if 0 <= ln < len(lines):
                    m = re.search(r'fn (c\d\d__\w+)', lines[ln])
                    dropped[m.group(1) if m else 'line%d' % ln] = msg
                    lines[ln] = ''
        else:
            raise BuildError('harness does not converge:\n' + p.stderr[-4000:])
        spath = os.path.join(outdir, 'summaries.json')
        if not os.path.exists(spath):
            raise BuildError('driver produced no summaries (cargo skipped the wrapper?)\n' + p.stderr[-3000:])
        if inventory and not os.path.exists(os.path.join(outdir, 'inventory.json')):
            raise BuildError('driver produced no inventory\n' + p.stderr[-3000:])
        tmpc = cdir + '.tmp%d' % os.getpid()
        shutil.rmtree(tmpc, ignore_errors=True)
        os.makedirs(tmpc)
        shutil.copy(spath, os.path.join(tmpc, 'summaries.json'))
        if inventory:
            shutil.copy(os.path.join(outdir, 'inventory.json'), os.path.join(tmpc, 'inventory.json'))
        if local:
            if not os.path.exists(os.path.join(outdir, 'local.json')):
                raise BuildError('driver produced no local summaries\n' + p.stderr[-3000:])
            shutil.copy(os.path.join(outdir, 'local.json'), os.path.join(tmpc, 'local.json'))
        meta = {'repo_hash': rh, 'features': list(features), 'dropped': dropped, 'extract_s': round(time.time() - t0, 2), 'cached': False}
        json.dump(meta, open(os.path.join(tmpc, 'meta.json'), 'w'))
        shutil.rmtree(cdir, ignore_errors=True)
        try:
            os.rename(tmpc, cdir)
        except OSError:
            shutil.rmtree(tmpc, ignore_errors=True)
        _prune()
        meta['cdir'] = cdir
        inv = json.load(open(os.path.join(cdir, 'inventory.json'))) if inventory else None
        return Summaries(os.path.join(cdir, 'summaries.json')), inv, meta
    finally:
        shutil.rmtree(work, ignore_errors=True)


def _prune(keep=60):
    try:
        ents = [(os.path.getmtime(os.path.join(CACHE, d)), d) for d in os.listdir(CACHE)]
    except OSError:
        return
    ents.sort(reverse=True)
    for _, d in ents[keep:]:
        shutil.rmtree(os.path.join(CACHE, d), ignore_errors=True)
