"""C01 — matrix products, constructors, embeddings follow the column-major, column-vector convention."""
import algebra as A
from algebra import El, ZERO, ONE
from core import (Harness, VEC, PNT, MAT, sv, sm, ss, Run, forms4, forms2, run_specs, report_dropped)
import facts

PROP = 'C01'
OPS = {'add': '+', 'sub': '-', 'mul': '*', 'div': '/', 'rem': '%'}


def opf(op, a, b):
    return {'add': lambda: a + b, 'sub': lambda: a - b, 'mul': lambda: a * b, 'div': lambda: a / b, 'rem': lambda: A.fn('rem', a, b)}[op]()


def build():
    h = Harness(PROP)
    g = '<S: BaseFloat>'
    for n, M in MAT.items():
        V, comps = VEC[n]
        Tm, Tv = '%s<S>' % M, '%s<S>' % V
        m = 'm%d' % n
        a, b = sm('a0', n), sm('a1', n)
        v = sv('a1', n)
        s = ss('a1')
        # constructors fix the (column,row) layout
        names = ['c%dr%d' % (c, r) for c in range(n) for r in range(n)]
        h.root('new__' + m, '<S>(%s) -> %s' % (', '.join('%s: S' % x for x in names), Tm), '%s::new(%s)' % (M, ', '.join(names)),
               ('value', [[ss('a%d' % (c * n + r)) for r in range(n)] for c in range(n)]), rule='K1 copy provenance')
        h.root('from_cols__' + m, '<S>(%s) -> %s' % (', '.join('c%d: %s' % (c, Tv) for c in range(n)), Tm), '%s::from_cols(%s)' % (M, ', '.join('c%d' % c for c in range(n))),
               ('value', [sv('a%d' % c, n) for c in range(n)]), rule='K1 copy provenance')
        # indexing
        for c in range(n):
            h.root('index__%s__%d' % (m, c), '<S: Copy>(a: &%s) -> %s' % (Tm, Tv), 'a[%d]' % c, ('value', a[c]), rule='K1 copy provenance')
            newm = [list(col) for col in a]
            newm[c] = v
            h.root('index_mut__%s__%d' % (m, c), '<S: Copy>(a: &mut %s, b: %s)' % (Tm, Tv), 'a[%d] = b' % c, ('post', {'a0': newm}), rule='K1 copy provenance')
            for r in range(n):
                h.root('index2__%s__%d_%d' % (m, c, r), '<S: Copy>(a: &%s) -> S' % Tm, 'a[%d][%d]' % (c, r), ('value', a[c][r]), rule='K1 copy provenance')
        h.root('index__%s__%d' % (m, n), '<S: Copy>(a: &%s) -> %s' % (Tm, Tv), 'a[%d]' % n, ('panic',))
        h.root('index_mut__%s__%d' % (m, n), '<S: Copy>(a: &mut %s, b: %s)' % (Tm, Tv), 'a[%d] = b' % n, ('panic',))
        h.root('index2__%s__0_%d' % (m, n), '<S: Copy>(a: &%s) -> S' % Tm, 'a[0][%d]' % n, ('panic',))
        for r in range(n):
            h.root('row__%s__%d' % (m, r), '%s(a: &%s) -> %s' % (g, Tm, Tv), 'a.row(%d)' % r, ('value', [a[c][r] for c in range(n)]), rule='K1 copy provenance')
        h.root('row__%s__%d' % (m, n), '%s(a: &%s) -> %s' % (g, Tm, Tv), 'a.row(%d)' % n, ('panic',))
        h.root('transpose__' + m, '%s(a: &%s) -> %s' % (g, Tm, Tm), 'a.transpose()', ('value', A.transpose(a)), rule='K1 copy provenance')
        h.root('diagonal__' + m, '%s(a: &%s) -> %s' % (g, Tm, Tv), 'a.diagonal()', ('value', [a[i][i] for i in range(n)]), rule='K1 copy provenance')
        h.root('trace__' + m, '%s(a: &%s) -> S' % (g, Tm), 'a.trace()', ('value', sum((a[i][i] for i in range(n)), ZERO)))
        sc = ss('a0')
        h.root('from_value__' + m, '%s(a: S) -> %s' % (g, Tm), '<%s as SquareMatrix>::from_value(a)' % Tm, ('value', [[sc if r == c else ZERO for r in range(n)] for c in range(n)]))
        d = sv('a0', n)
        h.root('from_diagonal__' + m, '%s(a: %s) -> %s' % (g, Tv, Tm), '<%s as SquareMatrix>::from_diagonal(a)' % Tm, ('value', [[d[c] if r == c else ZERO for r in range(n)] for c in range(n)]))
        h.root('identity__' + m, '%s() -> %s' % (g, Tm), '<%s as SquareMatrix>::identity()' % Tm, ('value', A.identity(n)))
        h.root('one__' + m, '%s() -> %s' % (g, Tm), '<%s as One>::one()' % Tm, ('value', A.identity(n)))
        h.root('zero__' + m, '%s() -> %s' % (g, Tm), '<%s as Zero>::zero()' % Tm, ('value', [[ZERO] * n for _ in range(n)]))
        # products
        forms4(h, 'mul_mv__' + m, g, Tm, Tv, Tv, '*', A.matvec(a, v))
        forms4(h, 'mul_mm__' + m, g, Tm, Tm, Tm, '*', A.matmul(a, b))
        # element-wise ring structure
        for op in ('add', 'sub'):
            forms4(h, '%s__%s' % (op, m), g, Tm, Tm, Tm, OPS[op], [[opf(op, a[c][r], b[c][r]) for r in range(n)] for c in range(n)])
            h.root('%s_assign__%s' % (op, m), '%s(a: &mut %s, b: %s)' % (g, Tm, Tm), '*a %s= b' % OPS[op], ('post', {'a0': [[opf(op, a[c][r], b[c][r]) for r in range(n)] for c in range(n)]}))
        for op in ('mul', 'div', 'rem'):
            exp = [[opf(op, a[c][r], s) for r in range(n)] for c in range(n)]
            forms2(h, '%s_s__%s' % (op, m), g, Tm, 'S', Tm, OPS[op], exp)
            h.root('%s_s_assign__%s' % (op, m), '%s(a: &mut %s, b: S)' % (g, Tm), '*a %s= b' % OPS[op], ('post', {'a0': exp}))
        neg = [[-a[c][r] for r in range(n)] for c in range(n)]
        h.root('neg__%s__v' % m, '%s(a: %s) -> %s' % (g, Tm, Tm), '-a', ('value', neg))
        h.root('neg__%s__r' % m, '%s(a: &%s) -> %s' % (g, Tm, Tm), '-a', ('value', neg))
        h.root('lerp__' + m, '%s(a: %s, b: %s, t: S) -> %s' % (g, Tm, Tm, Tm), 'VectorSpace::lerp(a, b, t)',
               ('value', [[a[c][r] + (b[c][r] - a[c][r]) * ss('a2') for r in range(n)] for c in range(n)]))
    # scalar on the left: s op M applies the primitive op to every element, scalar first
    for n, M in MAT.items():
        for p_ in ['usize', 'u8', 'u16', 'u32', 'u64', 'isize', 'i8', 'i16', 'i32', 'i64', 'f32', 'f64']:
            for op in ('mul', 'div', 'rem'):
                h.root('left_%s__%s__m%d' % (op, p_, n), '(a: %s, b: %s<%s>) -> %s<%s>' % (p_, M, p_, M, p_), 'a %s b' % OPS[op], ('left', op, n * n, p_))
    # translation / scale constructors and their action
    Z, I = ZERO, ONE
    t2, t3 = sv('a0', 2), sv('a0', 3)
    h.root('from_translation__m3', g + '(a: Vector2<S>) -> Matrix3<S>', 'Matrix3::from_translation(a)', ('value', [[I, Z, Z], [Z, I, Z], [t2[0], t2[1], I]]))
    h.root('from_translation__m4', g + '(a: Vector3<S>) -> Matrix4<S>', 'Matrix4::from_translation(a)', ('value', [[I, Z, Z, Z], [Z, I, Z, Z], [Z, Z, I, Z], [t3[0], t3[1], t3[2], I]]))
    x, y, z = ss('a0'), ss('a1'), ss('a2')
    h.root('from_scale__m3', g + '(a: S) -> Matrix3<S>', 'Matrix3::from_scale(a)', ('value', [[x, Z, Z], [Z, x, Z], [Z, Z, I]]))
    h.root('from_scale__m4', g + '(a: S) -> Matrix4<S>', 'Matrix4::from_scale(a)', ('value', [[x, Z, Z, Z], [Z, x, Z, Z], [Z, Z, x, Z], [Z, Z, Z, I]]))
    h.root('from_nonuniform_scale__m3', g + '(a: S, b: S) -> Matrix3<S>', 'Matrix3::from_nonuniform_scale(a, b)', ('value', [[x, Z, Z], [Z, y, Z], [Z, Z, I]]))
    h.root('from_nonuniform_scale__m4', g + '(a: S, b: S, c: S) -> Matrix4<S>', 'Matrix4::from_nonuniform_scale(a, b, c)', ('value', [[x, Z, Z, Z], [Z, y, Z, Z], [Z, Z, z, Z], [Z, Z, Z, I]]))
    # the action stated in the property: points are displaced / scaled, vectors are not displaced
    p2, p3 = sv('a1', 2), sv('a1', 3)
    h.root('act_translation_point__m3', g + '(a: Vector2<S>, p: Point2<S>) -> Point2<S>', 'Matrix3::from_translation(a).transform_point(p)', ('value', A.vadd(p2, t2)))
    h.root('act_translation_vector__m3', g + '(a: Vector2<S>, v: Vector2<S>) -> Vector2<S>', 'Transform::<Point2<S>>::transform_vector(&Matrix3::from_translation(a), v)', ('value', p2))
    h.root('act_translation_point__m4', g + '(a: Vector3<S>, p: Point3<S>) -> Point3<S>', 'Matrix4::from_translation(a).transform_point(p)', ('value', A.vadd(p3, t3)))
    h.root('act_translation_vector__m4', g + '(a: Vector3<S>, v: Vector3<S>) -> Vector3<S>', 'Matrix4::from_translation(a).transform_vector(v)', ('value', p3))
    q2, q3 = sv('a2', 2), sv('a3', 3)
    h.root('act_scale_point__m3', g + '(a: S, b: S, p: Point2<S>) -> Point2<S>', 'Matrix3::from_nonuniform_scale(a, b).transform_point(p)', ('value', [x * q2[0], y * q2[1]]))
    h.root('act_scale_point__m4', g + '(a: S, b: S, c: S, p: Point3<S>) -> Point3<S>', 'Matrix4::from_nonuniform_scale(a, b, c).transform_point(p)', ('value', [x * q3[0], y * q3[1], z * q3[2]]))
    h.root('act_scale_vector__m4', g + '(a: S, b: S, c: S, v: Vector3<S>) -> Vector3<S>', 'Matrix4::from_nonuniform_scale(a, b, c).transform_vector(v)', ('value', [x * q3[0], y * q3[1], z * q3[2]]))
    h.root('act_uniform_scale_point__m4', g + '(a: S, p: Point3<S>) -> Point3<S>', 'Matrix4::from_scale(a).transform_point(p)', ('value', [x * c for c in sv('a1', 3)]))
    # embeddings
    m2, m3 = sm('a0', 2), sm('a0', 3)
    gb = '<S: BaseNum>'
    h.root('embed__m2_m3', gb + '(a: Matrix2<S>) -> Matrix3<S>', 'Matrix3::from(a)', ('value', [[m2[0][0], m2[0][1], Z], [m2[1][0], m2[1][1], Z], [Z, Z, I]]))
    h.root('embed__m2_m4', gb + '(a: Matrix2<S>) -> Matrix4<S>', 'Matrix4::from(a)', ('value', [[m2[0][0], m2[0][1], Z, Z], [m2[1][0], m2[1][1], Z, Z], [Z, Z, I, Z], [Z, Z, Z, I]]))
    h.root('embed__m3_m4', gb + '(a: Matrix3<S>) -> Matrix4<S>', 'Matrix4::from(a)', ('value', [m3[0] + [Z], m3[1] + [Z], m3[2] + [Z], [Z, Z, Z, I]]))
    # matrices as transforms
    a3, a4 = sm('a0', 3), sm('a0', 4)
    p2, p3 = sv('a1', 2), sv('a1', 3)
    hp = A.matvec(a3, p2 + [I])
    h.root('transform_point__m3_2d', g + '(a: &Matrix3<S>, p: Point2<S>) -> Point2<S>', 'Transform::<Point2<S>>::transform_point(a, p)', ('value', hp[:2]))
    h.root('transform_vector__m3_2d', g + '(a: &Matrix3<S>, v: Vector2<S>) -> Vector2<S>', 'Transform::<Point2<S>>::transform_vector(a, v)', ('value', A.matvec(a3, p2 + [Z])[:2]))
    h.root('transform_point__m3_3d', g + '(a: &Matrix3<S>, p: Point3<S>) -> Point3<S>', 'Transform::<Point3<S>>::transform_point(a, p)', ('value', A.matvec(a3, p3)))
    h.root('transform_vector__m3_3d', g + '(a: &Matrix3<S>, v: Vector3<S>) -> Vector3<S>', 'Transform::<Point3<S>>::transform_vector(a, v)', ('value', A.matvec(a3, p3)))
    hp = A.matvec(a4, p3 + [I])
    h.root('transform_point__m4', g + '(a: &Matrix4<S>, p: Point3<S>) -> Point3<S>', 'Transform::<Point3<S>>::transform_point(a, p)', ('value', [hp[i] / hp[3] for i in range(3)]))
    h.root('transform_vector__m4', g + '(a: &Matrix4<S>, v: Vector3<S>) -> Vector3<S>', 'Transform::<Point3<S>>::transform_vector(a, v)', ('value', A.matvec(a4, p3 + [Z])[:3]))
    h.root('concat__m3_2d', g + '(a: &Matrix3<S>, b: &Matrix3<S>) -> Matrix3<S>', 'Transform::<Point2<S>>::concat(a, b)', ('value', A.matmul(sm('a0', 3), sm('a1', 3))))
    h.root('concat__m3_3d', g + '(a: &Matrix3<S>, b: &Matrix3<S>) -> Matrix3<S>', 'Transform::<Point3<S>>::concat(a, b)', ('value', A.matmul(sm('a0', 3), sm('a1', 3))))
    h.root('concat__m4', g + '(a: &Matrix4<S>, b: &Matrix4<S>) -> Matrix4<S>', 'Transform::<Point3<S>>::concat(a, b)', ('value', A.matmul(sm('a0', 4), sm('a1', 4))))
    # the ring's neutral elements as the empty sum / product, and short sums / products (the general fold is C17's)
    for n in (2, 3, 4):
        M = 'Matrix%d<S>' % n
        a, b = sm('a0', n), sm('a1', n)
        zero = [[Z] * n for _ in range(n)]
        for k, args, items, se, pe in ((0, '()', '', zero, A.identity(n)), (1, '(a: %s)' % M, 'a', a, a),
                                       (2, '(a: %s, b: %s)' % (M, M), 'a, b', [[a[c][r] + b[c][r] for r in range(n)] for c in range(n)], A.matmul(a, b))):
            arr = 'IntoIterator::into_iter([%s] as [%s; %d])' % (items, M, k)
            h.root('sum_n%d__m%d' % (k, n), g + args + ' -> ' + M, '<%s as std::iter::Sum>::sum(%s)' % (M, arr), ('value', se))
            h.root('product_n%d__m%d' % (k, n), g + args + ' -> ' + M, '<%s as std::iter::Product>::product(%s)' % (M, arr), ('value', pe))
    return h


def spec_selfcheck():
    # ring / linear-action laws of the statement, on the spec side (n = 2, 3)
    for n in (2, 3):
        a, b, c = sm('A', n), sm('B', n), sm('C', n)
        v, w = sv('v', n), sv('w', n)
        ab_c = A.matmul(A.matmul(a, b), c)
        a_bc = A.matmul(a, A.matmul(b, c))
        assert all(A.eq(x, y) for cx, cy in zip(ab_c, a_bc) for x, y in zip(cx, cy))
        assert all(A.eq(x, y) for x, y in zip(A.matvec(A.matmul(a, b), v), A.matvec(a, A.matvec(b, v))))
        assert all(A.eq(x, y) for x, y in zip(A.matvec(a, A.vadd(v, w)), A.vadd(A.matvec(a, v), A.matvec(a, w))))
        # column c of A*B equals A*(column c of B)
        ab = A.matmul(a, b)
        assert all(A.eq(ab[k][r], A.matvec(a, b[k])[r]) for k in range(n) for r in range(n))


def run(tier):
    run = Run(PROP, tier, 'proof')
    spec_selfcheck()
    h = build()
    msyn = h.monomorphise(['f32', 'f64'], bound=None, kinds=None, method_syntax='only', soft=True)
    mono = h.monomorphise(['f32', 'f64'], bound='<S: BaseFloat>') if tier == 'thorough' else []
    S, inv, meta = facts.extract(PROP, h.src())
    report_dropped(run, meta, h)
    from c17 import check_left
    run_specs(run, S, h, custom={'left': check_left})
    run.floor('roots', len(run.roots), len(h.specs))
    if mono:
        run.notes['monomorphic_instantiations'] = {'types': ['f32', 'f64'], 'roots': len(mono)}
    run.notes['monomorphic_method_syntax_roots'] = len([n_ for n_ in msyn if n_ in run.roots])
    return run.finish(
        explanation='Constructors, accessors (Index/row/transpose/diagonal/trace), embeddings, all operand forms of M*v, M*M, +, -, neg, scalar *,/,%, the assignment forms, translation/scale constructors (entries and their action on points and vectors) and the Transform methods of Matrix3 (2-D, 3-D) and Matrix4 are summarised from MIR for an abstract S and compared entry by entry with the column-major textbook definitions: (A v)[r] = sum_c A[c][r] v[c], (A B)[c][r] = sum_k A[k][r] B[c][k]. Out-of-range indices must summarise to Panic on every path.',
        trusted_base=['rustc nightly type checking / trait resolution / MIR construction', 'mirsum abstract interpreter: memory/view model for transmute-based Index, scalar-operation models', 'rules/algebra.py normal forms', 'field semantics of + - * / on the abstract scalar; % uninterpreted'],
        not_decided=['floating-point rounding (the statement quantifies over a field)'],
        exhaustive=True)
