"""Interval x congruence domain for angle normalisation (DESIGN §5.4, rule K11).

Lemma used for r = x % F with F > 0 (truncated remainder of a finite x):
    r = x - k F for an integer k,   |r| < F,   (r = 0 or sign r = sign x).
Everything is exact rational arithmetic on linear forms; no code is run.
"""
from fractions import Fraction as Fr

import algebra as A
from algebra import El, ZERO, ONE


def linear(e):
    """e = c + sum coef_i * atom_i  ->  (c, {atom: coef}) or None if not linear"""
    e = e.norm() if e.has_defined() else e
    c = Fr(0)
    co = {}
    for m, k in e.t.items():
        if m == ():
            c += k
        elif len(m) == 1 and m[0][1] == 1:
            co[m[0][0]] = co.get(m[0][0], 0) + k
        else:
            return None
    return c, co


def rem_atom(v, F):
    """if atom v is rem(X, F) return X else None"""
    k = A.CTX.kind[v]
    if k[0] == 'fn' and k[1] == 'rem' and len(k[2]) == 2:
        fl = linear(k[2][1])
        if fl is not None and not fl[1] and fl[0] == F:
            return k[2][0]
    return None


def reduce_mod(e, F, depth=0):
    """Replace every rem(X, F) atom that occurs linearly with an INTEGER coefficient by X (valid modulo F Z).
    Returns the reduced element (may still contain rem atoms with non-integer coefficients)."""
    if depth > 8:
        return e
    lin = linear(e)
    if lin is None:
        return e
    c, co = lin
    changed = False
    out = El.c(c)
    for v, k in co.items():
        X = rem_atom(v, F)
        if X is not None and k.denominator == 1:
            out = out + X * El.c(k)
            changed = True
        else:
            out = out + El.a(v) * El.c(k)
    return reduce_mod(out, F, depth + 1) if changed else out


def congruent(e, target, F):
    """e == target (mod F Z), using only the rem lemma"""
    d = reduce_mod(e - target, F)
    lin = linear(d)
    if lin is None or lin[1]:
        return False, d
    q = lin[0] / F
    return q.denominator == 1, d


class Iv:
    """interval with open/closed ends, in units of F"""

    def __init__(self, lo, lo_open, hi, hi_open):
        self.lo, self.lo_open, self.hi, self.hi_open = lo, lo_open, hi, hi_open

    def empty(self):
        return self.lo > self.hi or (self.lo == self.hi and (self.lo_open or self.hi_open))

    def meet_lt(self, b, strict):          # x < b  or x <= b
        if b < self.hi or (b == self.hi and strict and not self.hi_open):
            return Iv(self.lo, self.lo_open, b, strict)
        return self

    def meet_gt(self, b, strict):
        if b > self.lo or (b == self.lo and strict and not self.lo_open):
            return Iv(b, strict, self.hi, self.hi_open)
        return self

    def affine(self, alpha, beta):
        """alpha + beta * x"""
        if beta == 0:
            return Iv(alpha, False, alpha, False)
        if beta > 0:
            return Iv(alpha + beta * self.lo, self.lo_open, alpha + beta * self.hi, self.hi_open)
        return Iv(alpha + beta * self.hi, self.hi_open, alpha + beta * self.lo, self.lo_open)

    def within(self, lo, hi):
        """subset of the closed interval [lo, hi]"""
        return self.lo >= lo and self.hi <= hi

    def __repr__(self):
        return '%s%s, %s%s' % ('(' if self.lo_open else '[', self.lo, self.hi, ')' if self.hi_open else ']')


BIG = Fr(10) ** 40


def _combo(co):
    """canonical key of a linear combination sum co_v v: (key, scale) with the combination = scale * (v0 + ...)"""
    vs = sorted(co)
    s0 = co[vs[0]]
    return tuple((v, co[v] / s0) for v in vs), s0


def refine(env, rel, lhs, rhs, F):
    """env: {key: Iv} with key an atom (x % F, or a plain input) or the canonical key of a linear combination of atoms.
    Constrain by  lhs REL rhs  when lhs - rhs is linear."""
    lin = linear(lhs - rhs)
    if lin is None:
        return env
    c, co = lin
    co = {v: k for v, k in co.items() if k != 0}
    if not co:
        return env
    if len(co) == 1:
        (v, beta), = co.items()
        key = v
        default = Iv(Fr(-1), True, Fr(1), True) if rem_atom(v, F) is not None else Iv(-BIG, True, BIG, True)
    else:
        key, beta = _combo(co)
        default = Iv(-BIG, True, BIG, True)
    env = dict(env)
    if key not in env:
        env[key] = default
    # c + beta * R  REL 0   (R in absolute units)  ->  R/F REL' -c/(beta F)
    bound = -c / beta / F
    iv = env[key]
    r = rel
    if beta < 0:
        r = {'lt': 'gt', 'gt': 'lt', 'le': 'ge', 'ge': 'le'}.get(r, r)
    if r == 'lt':
        iv = iv.meet_lt(bound, True)
    elif r == 'gt':
        iv = iv.meet_gt(bound, True)
    elif r == 'le':
        iv = iv.meet_lt(bound, False)
    elif r == 'ge':
        iv = iv.meet_gt(bound, False)
    elif r == 'eq':
        iv = iv.meet_lt(bound, False).meet_gt(bound, False)
    env[key] = iv
    return env


def interval_of(e, env, F):
    """interval (units of F) of an element linear in rem atoms only; None if other atoms occur"""
    lin = linear(e)
    if lin is None:
        return None
    c, co = lin
    cur = Iv(c / F, False, c / F, False)
    # a bounded linear combination of plain inputs (a1 - a0 in [0, F) on this path) taken as a whole
    plain = {v: k for v, k in co.items() if k != 0 and rem_atom(v, F) is None and v not in env}
    if len(plain) >= 2:
        key, scale = _combo(plain)
        if key in env:
            iv = env[key].affine(Fr(0), scale)
            cur = Iv(cur.lo + iv.lo, cur.lo_open or iv.lo_open, cur.hi + iv.hi, cur.hi_open or iv.hi_open)
            co = {v: k for v, k in co.items() if v not in plain}
    for v, k in co.items():
        if rem_atom(v, F) is None and v not in env:
            return None
        iv = env.get(v, Iv(Fr(-1), True, Fr(1), True)).affine(Fr(0), k)
        cur = Iv(cur.lo + iv.lo, cur.lo_open or iv.lo_open, cur.hi + iv.hi, cur.hi_open or iv.hi_open)
    return cur
