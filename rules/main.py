"""Entry point: python3 rules/main.py <ID> quick|thorough | --replay <file>"""
import importlib
import json
import os
import sys

sys.path.insert(0, os.path.dirname(os.path.abspath(__file__)))
sys.setrecursionlimit(100000)
import facts  # noqa: E402
import core  # noqa: E402
import algebra  # noqa: E402


def main():
    if len(sys.argv) < 3:
        print('usage: check <ID> quick|thorough | <ID> --replay <file>')
        return 2
    prop = sys.argv[1].upper()
    replay = None
    tier = sys.argv[2]
    if tier == '--replay':
        replay = sys.argv[3]
        tier = 'quick'
        try:
            tier = json.load(open(replay)).get('tier', 'quick')
        except Exception:
            pass
    tier = os.environ.get('VERIF_TIER', tier) if tier not in ('quick', 'thorough') else tier
    mod = importlib.import_module(prop.lower())
    algebra.reset()
    try:
        code = mod.run(tier)
    except facts.BuildError as e:
        print('CHECK-ERROR: /repo does not build under the analysis driver; no verdict')
        print(str(e)[-3000:])
        return 2
    if replay:
        try:
            key = json.load(open(replay))['key']
        except Exception:
            return code
        out = os.path.join(core.VERIF, 'out', prop, core._safe(key) + '.json')
        print('replay: key %s %s' % (key, 'reproduces' if code and os.path.exists(out) else 'does not reproduce'))
    return code


if __name__ == '__main__':
    sys.exit(main())
