"""C11 — magnitude, distance, normalisation, angle and projection are consistent."""
import algebra as A
from algebra import El, ZERO, ONE
from core import (check_defined, Harness, VEC, PNT, sv, sq, ss, Run, Conv, run_specs, report_dropped, ret_leaves, cmp_struct, single_ret, flat)
import facts
import specs

PROP = 'C11'


def types():
    out = []
    for n, (T, comps) in VEC.items():
        out.append(('v%d' % n, '%s<S>' % T, n, 'vec'))
    out.append(('q', 'Quaternion<S>', 4, 'quat'))
    return out


def symflat(name, kind, n):
    """components in struct order"""
    if kind == 'quat':
        s, v = sq(name)
        return v + [s]
    return sv(name, n)


def build():
    h = Harness(PROP)
    g = '<S: BaseFloat>'
    for tag, T, n, kind in types():
        u, v = symflat('a0', kind, n), symflat('a1', kind, n)
        m = ss('a1')
        uu = A.dot(u, u)
        h.root('magnitude2__' + tag, g + '(a: %s) -> S' % T, 'InnerSpace::magnitude2(a)', ('value', uu))
        h.root('magnitude__' + tag, g + '(a: %s) -> S' % T, 'InnerSpace::magnitude(a)', ('lazy', lambda u=u: A.sqrt(A.dot(u, u))))
        d = A.vsub(u, v)
        h.root('distance2__' + tag, g + '(a: %s, b: %s) -> S' % (T, T), 'MetricSpace::distance2(a, b)', ('value', A.dot(d, d)))
        h.root('distance__' + tag, g + '(a: %s, b: %s) -> S' % (T, T), 'MetricSpace::distance(a, b)', ('lazy', lambda d=d: A.sqrt(A.dot(d, d))))
        h.root('normalize__' + tag, g + '(a: %s) -> %s' % (T, T), 'InnerSpace::normalize(a)', ('lazy', lambda u=u: [x / A.sqrt(A.dot(u, u)) for x in u]))
        h.root('normalize_to__' + tag, g + '(a: %s, m: S) -> %s' % (T, T), 'InnerSpace::normalize_to(a, m)', ('normalize_to', tag, kind, n))
        h.root('project_on__' + tag, g + '(a: %s, b: %s) -> %s' % (T, T, T), 'InnerSpace::project_on(a, b)', ('project_on', tag, kind, n))
        h.root('angle__' + tag, g + '(a: %s, b: %s) -> Rad<S>' % (T, T), 'InnerSpace::angle(a, b)', ('angle', tag, kind, n))
    for n, (T, comps) in PNT.items():
        Tn = '%s<S>' % T
        u, v = sv('a0', n), sv('a1', n)
        d = A.vsub(u, v)
        h.root('distance2__p%d' % n, g + '(a: %s, b: %s) -> S' % (Tn, Tn), 'MetricSpace::distance2(a, b)', ('value', A.dot(d, d)))
        h.root('distance__p%d' % n, g + '(a: %s, b: %s) -> S' % (Tn, Tn), 'MetricSpace::distance(a, b)', ('lazy', lambda d=d: A.sqrt(A.dot(d, d))))
    return h


def check_lazy(run, S, name, spec, kw):
    from core import check_value
    check_value(run, S, name, spec[1](), rule='K3 field/radical conformance')


def check_normalize_to(run, S, name, spec, kw):
    tag, kind, n = spec[1:]
    sr = single_ret(run, S, name)
    if sr is None:
        return
    r, leaf = sr
    cv = Conv(S)
    u = symflat('a0', kind, n)
    m = ss('a1')
    sigma = A.sqrt(A.dot(u, u))
    got = flat(cv.val(leaf['v']))
    where = r.get('span')
    key = '%s:%s' % (PROP, name)
    if len(got) != n:
        run.ob(key + ':arity', False, rule='K3', expected=n, found=len(got), where=where)
        return
    for i in range(n):
        run.ob('%s:parallel:%d' % (key, i), A.eq(got[i] * sigma, u[i] * m), rule='K3: normalize_to(v, m) = (m/|v|) v  (a positive multiple of v for m > 0)', expected=A.show((u[i] * m / sigma).norm()), found=A.show(got[i].norm()), where=where)
    check_defined(run, key, got, [A.dot(u, u)], where)
    l2 = A.dot(got, got)
    run.ob(key + ':length', A.eq(l2, m * m), rule='K4: |normalize_to(v, m)|^2 = m^2', expected='m^2', found=A.show(l2.norm()), where=where)
    k = (got[0] * sigma * A.inv(u[0])) if not u[0].zero() else None
    # sign of the factor for m > 0: k*sigma = m  => k = m / sigma, positive when m is
    sg = A.sign(A.inv(sigma) * m, positive=[A.CTX.atom('a1')])
    run.ob(key + ':positive', sg == 1, rule='sign domain', expected='factor m/|v| > 0 for m > 0', found=sg, where=where)


def check_project_on(run, S, name, spec, kw):
    tag, kind, n = spec[1:]
    sr = single_ret(run, S, name)
    if sr is None:
        return
    r, leaf = sr
    cv = Conv(S)
    u, v = symflat('a0', kind, n), symflat('a1', kind, n)
    got = flat(cv.val(leaf['v']))
    where = r.get('span')
    key = '%s:%s' % (PROP, name)
    if len(got) != n:
        run.ob(key + ':arity', False, rule='K3', expected=n, found=len(got), where=where)
        return
    # parallel to v: got_i * v_j == got_j * v_i ; residual orthogonal to v
    par = all(A.eq(got[i] * v[j], got[j] * v[i]) for i in range(n) for j in range(i + 1, n))
    run.ob(key + ':parallel', par, rule='K4', expected='project_on(u, v) is parallel to v', found='holds' if par else 'fails', where=where)
    res = A.dot(A.vsub(u, got), v)
    run.ob(key + ':orthogonal', A.eq(res, ZERO), rule='K4', expected='(u - project_on(u, v)) . v = 0', found=A.show(res.norm()), where=where)
    exp = [x * A.dot(u, v) / A.dot(v, v) for x in v]
    cmp_struct(run, S, name, got, exp, 'K3: v (u.v)/(v.v)', where=where)


def fn_args(S, cv, v, fname):
    while 'a' in v and len(v['a']) == 1:
        v = v['a'][0]
    if 't' not in v:
        return None
    t = S.terms[v['t']]
    if t[0] == 'a' and t[1] == fname:
        return [cv.el(x) for x in t[2]]
    return None


def check_angle(run, S, name, spec, kw):
    tag, kind, n = spec[1:]
    sr = single_ret(run, S, name)
    if sr is None:
        return
    r, leaf = sr
    cv = Conv(S)
    u, v = symflat('a0', kind, n), symflat('a1', kind, n)
    where = r.get('span')
    key = '%s:%s' % (PROP, name)
    uv = A.dot(u, v)
    su, svv = A.sqrt(A.dot(u, u)), A.sqrt(A.dot(v, v))
    ac = fn_args(S, cv, leaf['v'], 'acos')
    at = fn_args(S, cv, leaf['v'], 'atan2')
    if ac is not None:
        check_defined(run, key, ac, [A.dot(u, u), A.dot(v, v)], where)
        ok = A.eq(ac[0] * su * svv, uv)
        run.ob(key + ':acos', ok and n != 2, rule='K3 + range lemma acos in [0, pi]', expected='acos((u.v)/(|u||v|)): |u||v|cos(angle) = u.v, range [0, pi], symmetric' + (' - but dimension 2 needs the signed angle' if n == 2 else ''),
               found=S.showval(leaf['v'])[:200], where=where)
        return
    if at is None:
        run.ob(key + ':form', False, rule='K3', expected='acos(..) or atan2(.., ..) of the radian measure', found=S.showval(leaf['v'])[:200], where=where)
        return
    Y, X = at
    check_defined(run, key, [Y, X], [A.dot(u, u), A.dot(v, v)], where)
    # X = k (u.v), X^2 + Y^2 = k^2 |u|^2 |v|^2 with k > 0
    k = None
    for cand in (ONE,):
        if A.eq(X, uv * cand):
            k = cand
    if k is None:
        # general positive factor: X * (u.v)^-1 must be sign-positive
        try:
            ratio = (X * A.inv(uv)).norm()
            if A.sign(ratio) == 1:
                k = ratio
        except ZeroDivisionError:
            pass
    run.ob(key + ':cos', k is not None, rule='K3', expected='second atan2 argument = k (u.v), k > 0', found=A.show(X.norm()), where=where)
    if k is None:
        return
    lag = A.eq(X * X + Y * Y, k * k * A.dot(u, u) * A.dot(v, v))
    run.ob(key + ':norm', lag, rule='K4', expected='X^2 + Y^2 = k^2 |u|^2 |v|^2  (so |u||v|cos(angle) = u.v)', found='holds' if lag else 'fails', where=where)
    if n == 2:
        pd = u[0] * v[1] - u[1] * v[0]
        run.ob(key + ':signed', A.eq(Y, pd * k), rule='K3', expected='first atan2 argument = k perp_dot(u, v): signed counter-clockwise angle from u to v in [-pi, pi]', found=A.show(Y.norm()), where=where)
    else:
        sg = A.sign(Y)
        run.ob(key + ':nonneg', sg == 1, rule='sign domain', expected='first atan2 argument >= 0 (a square root): angle in [0, pi], symmetric', found='%s sign %s' % (A.show(Y.norm(), 4), sg), where=where)


def run(tier):
    run = Run(PROP, tier, 'proof')
    specs.selfcheck()
    h = build()
    mono = h.monomorphise(['f32', 'f64'], bound='<S: BaseFloat>', kinds=None, method_syntax='only', soft=True)
    S, inv, meta = facts.extract(PROP, h.src())
    report_dropped(run, meta, h)
    run_specs(run, S, h, custom={'lazy': check_lazy, 'normalize_to': check_normalize_to, 'project_on': check_project_on, 'angle': check_angle})
    run.floor('roots', len(run.roots), len(h.specs))
    run.notes['monomorphic_method_syntax_roots'] = len([n for n in mono if n in run.roots])
    run.assumed.update(A.CTX.assumed)
    return run.finish(
        explanation='For Vector1..4 and Quaternion (and MetricSpace on Point1..3): magnitude = sqrt(magnitude2), distance2 = sum (u_i - v_i)^2 (symmetric as a polynomial), distance = sqrt(distance2), normalize = v/|v|, normalize_to(v,m) = (m/|v|) v with |result|^2 = m^2 and a positive factor for m > 0, project_on(u,v) parallel to v with (u - proj).v = 0, all decided in the Laurent/radical normal form. angle: the result must be acos((u.v)/(|u||v|)) (dimensions other than 2) or atan2(Y, X) with X = k(u.v), X^2+Y^2 = k^2|u|^2|v|^2, k > 0, and in 2-D Y = k perp_dot(u,v) (signed, counter-clockwise), otherwise Y >= 0 by the sign domain; with the range lemmas this gives |u||v|cos = u.v, the ranges and the (a)symmetry.',
        trusted_base=['rustc nightly type checking / trait resolution / MIR construction', 'mirsum abstract interpreter (sqrt real; acos/atan2 symbols)', 'range lemmas acos in [0,pi], atan2 in [-pi,pi], atan2(y>=0, x) in [0,pi]', 'rules/algebra.py'],
        not_decided=['rounding; zero-length inputs (excluded by the statement)'],
        exhaustive=True)
