#!/usr/bin/env python3
"""Re-run the owning quick check on every seeded patch (scratch copies), refresh meta.json['detected_by'] and print the table of DESIGN 14.5."""
import json, os, re, shutil, subprocess, sys, tempfile
from concurrent.futures import ThreadPoolExecutor
V = os.path.dirname(os.path.dirname(os.path.abspath(__file__)))


def one(d):
    sid = os.path.basename(d)
    prop = sid.split('-')[0]
    work = tempfile.mkdtemp(prefix='seedtab-')
    try:
        repo = os.path.join(work, 'repo')
        subprocess.run('rsync -a --exclude target --exclude .git /repo/ %s/ && cd %s && git init -q && git add -A && git commit -qm b -q && git apply %s/patch.diff' % (repo, repo, d), shell=True, check=True, capture_output=True)
        env = dict(os.environ, VERIF_REPO=repo, VERIF_EVIDENCE_DIR=os.path.join(work, 'ev'), VERIF_OUT_DIR=os.path.join(work, 'out'), VERIF_SELFTEST_CHILD='1')
        p = subprocess.run('%s/check %s quick' % (V, prop), shell=True, env=env, capture_output=True, text=True)
        keys = re.findall(r'key=(\S+)', p.stdout)
        mp = os.path.join(d, 'meta.json')
        m = json.load(open(mp))
        m['detected_by'] = {prop: {'exit': p.returncode, 'violations': len(re.findall(r'^VIOLATION', p.stdout, re.M)), 'keys': keys[:6], 'check_error': 'CHECK-ERROR' in p.stdout}}
        m['detected'] = p.returncode == 1
        json.dump(m, open(mp, 'w'), indent=1)
        return sid, prop, p.returncode, keys[:2]
    finally:
        shutil.rmtree(work, ignore_errors=True)


def main():
    ds = sorted(os.path.join(V, 'seeded', x) for x in os.listdir(os.path.join(V, 'seeded')) if os.path.exists(os.path.join(V, 'seeded', x, 'patch.diff')))
    with ThreadPoolExecutor(max_workers=6) as ex:
        rows = list(ex.map(one, ds))
    print('| seed | detected by | keys |\n|---|---|---|')
    for sid, prop, rc, keys in rows:
        print('| %s | %s (exit %d) | %s |' % (sid, prop, rc, ', '.join('`%s`' % k for k in keys)))
    missed = [r for r in rows if r[2] != 1]
    print('\nmissed: %s' % [r[0] for r in missed], file=sys.stderr)


if __name__ == '__main__':
    main()
