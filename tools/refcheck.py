#!/usr/bin/env python3
"""Validate behaviour-preserving refactorings delivered by sub-agents and run ALL checks on each.

usage: tools/refcheck.py <PROP> [rN ...]
  reads /tmp/wt/<PROP>-ref/rN.diff (+ tN.rs); for each: scratch copy of /repo, apply, whole suite + the agent's test must pass;
  then every property's quick check runs on the patched copy (VERIF_REPO).  Records /verif/refactors/<PROP>-rN/{patch.diff,test.rs,meta.json}.
"""
import json, os, re, shutil, subprocess, sys, tempfile
from concurrent.futures import ThreadPoolExecutor
V = os.path.dirname(os.path.dirname(os.path.abspath(__file__)))
ALL = ['C%02d' % i for i in range(1, 21)]


def sh(cmd, cwd=None, env=None, timeout=2400):
    p = subprocess.run(cmd, shell=True, cwd=cwd, env=env, capture_output=True, text=True, timeout=timeout)
    return p.returncode, p.stdout + p.stderr


def one(prop, r):
    src = os.environ.get('REF_SRC', '/tmp/wt/%s-ref') % prop
    patch = os.path.join(src, '%s.diff' % r)
    test = os.path.join(src, 't%s.rs' % r[1:])
    if not os.path.exists(patch):
        return None
    work = tempfile.mkdtemp(prefix='ref-%s-' % prop)
    try:
        repo = os.path.join(work, 'repo')
        sh('rsync -a --exclude target --exclude .git /repo/ %s/' % repo)
        sh('git init -q && git add -A && git commit -qm base', cwd=repo)
        rc, out = sh('git apply %s' % patch, cwd=repo)
        if rc != 0:
            return {'id': '%s-%s' % (prop, r), 'valid': False, 'why': 'patch does not apply: ' + out[-200:]}
        env = dict(os.environ, CARGO_NET_OFFLINE='true', CARGO_TARGET_DIR=os.path.join(work, 'target'))
        tname = None
        if os.path.exists(test):
            tname = 'ref_%s_%s' % (prop.lower(), r)
            shutil.copy(test, os.path.join(repo, 'tests', tname + '.rs'))
        feats = '--features serde' if prop == 'C20' else ''
        rc, out = sh('cargo test --offline --no-fail-fast %s 2>&1 | grep -E "^test result|FAILED|error(\\[|:)|could not compile" | sort | uniq -c' % feats, cwd=repo, env=env)
        ok = 'FAILED' not in out and 'error' not in out and 'could not compile' not in out and 'test result: ok' in out
        if tname:
            os.remove(os.path.join(repo, 'tests', tname + '.rs'))
        shutil.rmtree(os.path.join(work, 'target'), ignore_errors=True)
        meta = {'id': '%s-%s' % (prop, r.replace('r', os.environ.get('REF_TAG', 'r'))), 'property': prop, 'valid': ok, 'suite': out[-500:], 'alarms': {}}
        if ok:
            def chk(c):
                e2 = dict(os.environ, VERIF_REPO=repo, VERIF_EVIDENCE_DIR=os.path.join(work, 'ev'), VERIF_OUT_DIR=os.path.join(work, 'out'), VERIF_SELFTEST_CHILD='1')
                rc, o = sh('%s/check %s quick' % (V, c), env=e2)
                return c, rc, re.findall(r'key=(\S+)', o)[:6], ('CHECK-ERROR' in o)
            with ThreadPoolExecutor(max_workers=10) as ex:
                for c, rc, keys, err in ex.map(chk, ALL):
                    if rc != 0:
                        meta['alarms'][c] = {'exit': rc, 'keys': keys, 'check_error': err}
            out_dir = os.path.join(V, 'refactors', '%s-%s' % (prop, r.replace('r', os.environ.get('REF_TAG', 'r'))))
            os.makedirs(out_dir, exist_ok=True)
            shutil.copy(patch, os.path.join(out_dir, 'patch.diff'))
            if os.path.exists(test):
                shutil.copy(test, os.path.join(out_dir, 'test.rs'))
            json.dump(meta, open(os.path.join(out_dir, 'meta.json'), 'w'), indent=1)
        return meta
    finally:
        shutil.rmtree(work, ignore_errors=True)


def main():
    prop = sys.argv[1]
    rs = sys.argv[2:] or ['r1', 'r2', 'r3', 'r4']
    for r in rs:
        m = one(prop, r)
        if m is None:
            print('%s-%s: missing' % (prop, r))
            continue
        print('%s: valid=%s alarms=%s' % (m['id'], m['valid'], {c: a['keys'][:2] for c, a in m.get('alarms', {}).items()} or 'none'))
        if not m['valid']:
            print('   ', m.get('why') or m.get('suite', '')[-300:])


if __name__ == '__main__':
    main()
