#!/usr/bin/env python3
"""Validate a seeded change delivered by a sub-agent and record it under /verif/seeded/.

usage: tools/seed.py <PROP> <a|b> [--features f1,f2] [--checks C01,C17]
  reads /tmp/wt/<PROP>-out/{a,b}.diff and demo_{a,b}.rs
  1. scratch copy of /repo; existing suite must pass with the patch; demo must fail with it and pass without it
  2. runs the owning property's quick check (and any extra --checks) on the patched copy via VERIF_REPO
  3. writes /verif/seeded/<PROP>-<x>/{patch.diff, demo.rs, meta.json}
"""
import json
import os
import re
import shutil
import subprocess
import sys
import tempfile

V = os.path.dirname(os.path.dirname(os.path.abspath(__file__)))


def sh(cmd, cwd=None, env=None, timeout=1800):
    p = subprocess.run(cmd, shell=True, cwd=cwd, env=env, capture_output=True, text=True, timeout=timeout)
    return p.returncode, p.stdout + p.stderr


def main():
    prop, which = sys.argv[1], sys.argv[2]
    feats = ''
    checks = [prop]
    src = '/tmp/wt/%s-out' % prop
    name = which
    for i, a in enumerate(sys.argv):
        if a == '--features':
            feats = sys.argv[i + 1]
        if a == '--checks':
            checks = sys.argv[i + 1].split(',')
        if a == '--src':
            src = sys.argv[i + 1]
        if a == '--name':
            name = sys.argv[i + 1]
    patch = os.path.join(src, '%s.diff' % which)
    demo = os.path.join(src, 'demo_%s.rs' % which)
    if not (os.path.exists(patch) and os.path.exists(demo)):
        print('missing', patch, demo)
        return 2
    work = tempfile.mkdtemp(prefix='seed-%s-' % prop)
    env = dict(os.environ, CARGO_NET_OFFLINE='true', CARGO_TARGET_DIR=os.path.join(work, 'target'))
    meta = {'property': prop, 'variant': name, 'features': feats, 'ran': []}
    try:
        repo = os.path.join(work, 'repo')
        sh('rsync -a --exclude target --exclude .git /repo/ %s/' % repo)
        sh('git init -q && git add -A && git commit -qm base', cwd=repo)
        fflag = ('--features ' + feats) if feats else ''
        demo_name = 'seed_demo_%s_%s' % (prop.lower(), which)
        shutil.copy(demo, os.path.join(repo, 'tests', demo_name + '.rs'))
        # unpatched: demo passes
        rc, out = sh('cargo test --offline %s --test %s 2>&1 | tail -15' % (fflag, demo_name), cwd=repo, env=env)
        base_pass = 'test result: ok' in out and 'FAILED' not in out
        meta['ran'].append({'cmd': 'cargo test --offline %s --test %s (unpatched)' % (fflag, demo_name), 'passes': base_pass})
        rc, out = sh('git apply %s' % patch, cwd=repo)
        if rc != 0:
            print('patch does not apply:', out[-500:])
            return 2
        # patched: suite passes (excluding the demo), demo fails
        os.rename(os.path.join(repo, 'tests', demo_name + '.rs'), os.path.join(work, demo_name + '.rs'))
        rc, out = sh('cargo test --offline --no-fail-fast 2>&1 | grep -E "^test result|FAILED|error(\\[|:)" | sort | uniq -c', cwd=repo, env=env)
        suite_pass = 'FAILED' not in out and 'error' not in out and 'test result: ok' in out
        meta['ran'].append({'cmd': 'cargo test --offline --no-fail-fast (patched, existing suite)', 'passes': suite_pass, 'summary': out[-600:]})
        if feats:
            rc, outf = sh('cargo build --offline %s 2>&1 | tail -3' % fflag, cwd=repo, env=env)
            meta['ran'].append({'cmd': 'cargo build --offline %s (patched)' % fflag, 'passes': 'error' not in outf})
        shutil.copy(os.path.join(work, demo_name + '.rs'), os.path.join(repo, 'tests', demo_name + '.rs'))
        rc, out = sh('cargo test --offline %s --test %s 2>&1 | tail -25' % (fflag, demo_name), cwd=repo, env=env)
        demo_fails = 'FAILED' in out or 'panicked' in out
        compiled = 'error[' not in out and 'could not compile' not in out
        meta['ran'].append({'cmd': 'cargo test --offline %s --test %s (patched)' % (fflag, demo_name), 'fails': demo_fails, 'compiled': compiled, 'tail': out[-500:]})
        os.remove(os.path.join(repo, 'tests', demo_name + '.rs'))
        valid = base_pass and suite_pass and demo_fails and compiled
        meta['valid'] = valid
        print('%s-%s(%s): demo passes unpatched=%s, suite passes patched=%s, demo fails patched=%s (compiled=%s) => valid=%s' % (prop, name, which, base_pass, suite_pass, demo_fails, compiled, valid))
        # my checks on the patched tree
        det = {}
        env2 = dict(os.environ, VERIF_REPO=repo)
        for c in checks:
            rc, out = sh('%s/check %s quick' % (V, c), env=env2)
            keys = re.findall(r'key=(\S+)', out)
            det[c] = {'exit': rc, 'violations': len(re.findall(r'^VIOLATION', out, re.M)), 'keys': keys[:6], 'check_error': 'CHECK-ERROR' in out}
            print('  check %s: exit %d, %d violation lines, keys %s' % (c, rc, det[c]['violations'], keys[:3]))
        meta['detected_by'] = det
        meta['detected'] = any(d['exit'] == 1 for d in det.values())
        if valid:
            out_dir = os.path.join(V, 'seeded', '%s-%s' % (prop, name))
            os.makedirs(out_dir, exist_ok=True)
            shutil.copy(patch, os.path.join(out_dir, 'patch.diff'))
            shutil.copy(demo, os.path.join(out_dir, 'demo.rs'))
            notes = os.path.join(src, 'notes.md')
            if os.path.exists(notes):
                meta['needs_to_manifest'] = 'see notes.md'
                shutil.copy(notes, os.path.join(out_dir, 'notes.md'))
            json.dump(meta, open(os.path.join(out_dir, 'meta.json'), 'w'), indent=1)
        return 0 if valid else 1
    finally:
        shutil.rmtree(work, ignore_errors=True)


if __name__ == '__main__':
    sys.exit(main())
