#!/bin/bash
# tools/mut.sh <ID> <file-under-repo> <python-regex-find> <replace>   -- apply one textual mutation to a scratch copy and run the quick check on it
set -e
ID=$1; FILE=$2; FIND=$3; REPL=$4
D=$(mktemp -d /tmp/mut.XXXXXX)
rsync -a --exclude target --exclude .git /repo/ $D/repo/
python3 - "$D/repo/$FILE" "$FIND" "$REPL" <<'PY'
import re,sys
p,f,r=sys.argv[1:4]
s=open(p).read()
n=len(re.findall(f,s))
if n==0: print("MUTATION DID NOT MATCH"); sys.exit(3)
import os
nth=int(os.environ.get('MUT_NTH','0'))
ms=list(re.finditer(f,s))
m=ms[nth]
s2=s[:m.start()]+m.expand(r)+s[m.end():]
open(p,'w').write(s2)
print("mutated (%d candidates, first replaced)"%n)
PY
VERIF_REPO=$D/repo /verif/check $ID quick 2>&1 | grep -E "VIOLATION|rule=|obligations|CHECK-ERROR|KNOWN|expected|found" | head -${5:-12}
rm -rf $D
