#!/usr/bin/env python3
"""Regenerate /verif/MANIFEST.json from tools/registry.json (claimed checks) + properties.jsonl."""
import json, os
V = os.path.dirname(os.path.dirname(os.path.abspath(__file__)))
props = [json.loads(l) for l in open(os.path.join(V, 'properties.jsonl'))]
reg = json.load(open(os.path.join(V, 'tools', 'registry.json')))
checks = []
na = []
for p in props:
    pid = p['id']
    r = reg['checks'].get(pid)
    if r is None:
        na.append({'property_id': pid, 'reason': reg['not_applicable'].get(pid, 'check not built yet (in progress); see DESIGN.md section 7')})
        continue
    checks.append({
        'property_id': pid,
        'quick_cmd': './check %s quick' % pid,
        'thorough_cmd': './check %s thorough' % pid,
        'evidence_file': '/verif/evidence/%s.json' % pid,
        'replay_cmd_template': './check %s --replay {path}' % pid,
        'engine': 'mirsum+rules',
        'level_claimed': {'category': r['level'], 'text': r['text'], 'design_ref': r.get('design_ref', 'DESIGN.md section 7 ' + pid)},
        'level_note': r['note'],
        'technique': r['technique'],
    })
m = {
    'version': 1,
    'setup_cmd': './setup.sh',
    'hooks': {'guard': 'none', 'enable': 'no hooks: the analysis is external (rustc_private driver over the working tree of /repo); nothing in /repo is instrumented',
              'baseline_off_cmd': 'cd /repo && cargo test --workspace --no-fail-fast --offline', 'source_commits': reg.get('source_commits', []), 'add_only': True},
    'engines': [{'name': 'mirsum+rules', 'path': 'engine/ rules/', 'serves_properties': [c['property_id'] for c in checks],
                 'kind_free_text': 'static analysis: forward abstract interpretation of type-checked, trait-resolved rustc MIR in a term (Herbrand) domain by a rustc_private driver, followed by a rule layer (Python stdlib) that compares the function summaries with specification terms by polynomial / Laurent normal forms and applies structural rules (copy provenance, comparator coverage, guard pass-sets, sibling agreement, layout queries, unsafe census)'}],
    'checks': checks,
    'notes': reg.get('notes', ''),
    'not_applicable': na,
}
json.dump(m, open(os.path.join(V, 'MANIFEST.json'), 'w'), indent=1)
print('checks:', [c['property_id'] for c in checks], 'n/a:', len(na))
