#!/usr/bin/env python3
"""debug aid: tools/showroot.py C13 c13__sum__rad__v [maxlines]  (honours VERIF_REPO) — prints the outcome tree of one harness root"""
import importlib, io, os, sys
sys.path.insert(0, os.path.join(os.path.dirname(os.path.dirname(os.path.abspath(__file__))), 'rules'))
import facts
prop, root = sys.argv[1], sys.argv[2]
mx = int(sys.argv[3]) if len(sys.argv) > 3 else 60
m = importlib.import_module(prop.lower())
try:
    h = m.build()
except TypeError:
    h = m.build("quick")
S, inv, meta = facts.extract(prop, h.src())
r = S.roots.get(root)
if r is None:
    print('no such root; have e.g.', [k for k in S.roots if root.split('__')[1] in k][:10])
    sys.exit(1)
b = io.StringIO()
S.print_out(r['out'], 1, b)
print('\n'.join(b.getvalue().split('\n')[:mx]))
