#!/usr/bin/env python3
"""Re-run ALL twenty quick checks on every recorded behaviour-preserving rewrite (refactors/*/patch.diff) and refresh meta.json['alarms'].
usage: tools/refall.py [id-prefix ...]   (REFALL_OWN=1: only the owning property's check, meta.json left alone)"""
import json, os, re, shutil, subprocess, sys, tempfile
from concurrent.futures import ThreadPoolExecutor
V = os.path.dirname(os.path.dirname(os.path.abspath(__file__)))
ALL = ['C%02d' % i for i in range(1, 21)]


def one(d):
    rid = os.path.basename(d)
    work = tempfile.mkdtemp(prefix='refall-')
    try:
        repo = os.path.join(work, 'repo')
        p = subprocess.run('rsync -a --exclude target --exclude .git /repo/ %s/ && cd %s && git init -q && git add -A && git commit -qm b -q && git apply %s/patch.diff' % (repo, repo, d), shell=True, capture_output=True, text=True)
        if p.returncode != 0:
            return rid, {'apply': p.stderr[-200:]}
        alarms = {}

        def chk(c):
            env = dict(os.environ, VERIF_REPO=repo, VERIF_EVIDENCE_DIR=os.path.join(work, 'ev'), VERIF_OUT_DIR=os.path.join(work, 'out'), VERIF_SELFTEST_CHILD='1')
            q = subprocess.run('%s/check %s quick' % (V, c), shell=True, env=env, capture_output=True, text=True)
            return c, q.returncode, re.findall(r'key=(\S+)', q.stdout)[:4]
        todo = ALL
        if os.environ.get('REFALL_OWN'):
            # quick regression after a rule-level change: only the property the rewrite was written against (and the ones it lists)
            mp0 = os.path.join(d, 'meta.json')
            m0 = json.load(open(mp0)) if os.path.exists(mp0) else {}
            todo = sorted({m0.get('property') or rid.split('-')[0]} | set(m0.get('recheck', [])))
        with ThreadPoolExecutor(max_workers=5) as ex:
            for c, rc, keys in ex.map(chk, todo):
                if rc != 0:
                    alarms[c] = {'exit': rc, 'keys': keys}
        mp = os.path.join(d, 'meta.json')
        m = json.load(open(mp)) if os.path.exists(mp) else {'id': rid}
        if not os.environ.get('REFALL_OWN'):
            m['alarms'] = alarms
            json.dump(m, open(mp, 'w'), indent=1)
        return rid, alarms
    finally:
        shutil.rmtree(work, ignore_errors=True)


def main():
    pre = sys.argv[1:]
    ds = sorted(os.path.join(V, 'refactors', x) for x in os.listdir(os.path.join(V, 'refactors')) if os.path.exists(os.path.join(V, 'refactors', x, 'patch.diff')) and (not pre or any(x.startswith(p) for p in pre)))
    bad = 0
    with ThreadPoolExecutor(max_workers=3) as ex:
        for rid, alarms in ex.map(one, ds):
            if alarms:
                bad += 1
                print(rid, {c: a.get('keys', a)[:2] if isinstance(a, dict) and 'keys' in a else a for c, a in alarms.items()}, flush=True)
    print('%d rewrites, %d with alarms' % (len(ds), bad))


if __name__ == '__main__':
    main()
