#!/bin/bash
# tools/seedround.sh <suffix of the -out dir> <name for a> <name for b> [IDs...]: validate delivered seeds that are not recorded yet
suf=$1; na=$2; nb=$3; shift 3
ids=${@:-$(seq -f "C%02g" 1 20)}
for id in $ids; do
  d=${SEED_BASE:-/tmp/wt}/$id-$suf
  for pair in a:$na b:$nb; do
    w=${pair%%:*}; n=${pair##*:}
    [ -f $d/$w.diff ] || continue
    [ -f /verif/seeded/$id-$n/meta.json ] && continue
    extra=""
    [ $id = C20 ] && extra="--features serde"
    [ $id = C16 ] && grep -q "swizzle\|mint" $d/demo_$w.rs 2>/dev/null && extra="--features swizzle,mint"
    python3 /verif/tools/seed.py $id $w --src $d --name $n $extra 2>&1 | grep -v "^missing" | tail -3
  done
done
