//! Forward abstract interpretation of MIR in a term domain (DESIGN §4).
//! No inputs, no solver, no feasibility pruning: a symbolic branch condition forks, a
//! construct outside the model gives Top.
use crate::terms::{self, app, atom, cfloat, cint, cstr, jstr, show, T};
use rustc_abi::VariantIdx;
use rustc_hir::def_id::DefId;
use rustc_hir::LangItem;
use rustc_middle::mir::{
    self, AggregateKind, AssertKind, BasicBlock, BinOp, Body, CastKind, Operand, Place, ProjectionElem, Rvalue,
    StatementKind, TerminatorKind, UnOp,
};
use rustc_middle::ty::{self, EarlyBinder, GenericArgsRef, Instance, InstanceKind, Ty, TyCtxt, TypingEnv};
use rustc_span::Span;

#[derive(Clone, Debug)]
pub enum V<'tcx> {
    Sym(T),
    Int(u128),
    Agg(Vec<V<'tcx>>),
    Enum(u32, Vec<V<'tcx>>),
    Ref(Ptr<'tcx>),
    Fn(Ty<'tcx>),
    Str(String),
    /// abstract cursor over a slice / array of concrete length (slice::Iter, IterMut, array::IntoIter)
    Iter { ptr: Ptr<'tcx>, front: usize, back: usize, by_value: bool },
    Undef,
}
#[derive(Clone, Copy, Debug, PartialEq)]
pub enum PE {
    F(usize),
    Var(u32),
}
#[derive(Clone, Debug)]
pub struct Seg<'tcx> {
    pub view: Option<Ty<'tcx>>,
    pub path: Vec<PE>,
}
#[derive(Clone, Debug)]
pub struct Ptr<'tcx> {
    pub cell: usize,
    pub segs: Vec<Seg<'tcx>>,
    /// Some((start, len)): the pointee is the slice of elements [start, start+len) of the array the segments designate
    pub win: Option<(usize, usize)>,
}
impl<'tcx> V<'tcx> {
    /// the cell a reference / cursor points into
    pub fn as_ptr_cell(&self) -> Option<usize> {
        match self {
            V::Ref(p) => Some(p.cell),
            V::Iter { ptr, .. } => Some(ptr.cell),
            _ => None,
        }
    }
}
fn tcx_is_option(tcx: TyCtxt<'_>, did: DefId) -> bool {
    tcx.is_lang_item(did, LangItem::Option)
}
pub fn ptr0<'tcx>(cell: usize) -> Ptr<'tcx> {
    Ptr { cell, segs: vec![Seg { view: None, path: vec![] }], win: None }
}

#[derive(Clone)]
pub struct Frame<'tcx> {
    pub visits: Vec<u16>,
    pub inst: Instance<'tcx>,
    pub body: &'tcx Body<'tcx>,
    pub locals: Vec<usize>,
    pub bb: BasicBlock,
    /// statements of `bb` already executed (a fork in the middle of a block resumes after the forking statement)
    pub skip: usize,
    pub ret_to: Option<(Ptr<'tcx>, Option<BasicBlock>)>,
}
#[derive(Clone)]
pub struct Cell<'tcx> {
    pub ty: Ty<'tcx>,
    pub v: V<'tcx>,
    pub name: Option<String>,
}
#[derive(Clone)]
pub struct Pending<'tcx> {
    /// number of frames when the operation was started (it continues when the stack is back at this depth)
    pub depth: usize,
    pub fcell: usize,
    pub fty: Ty<'tcx>,
    pub items: Vec<V<'tcx>>,
    pub item_ty: Ty<'tcx>,
    pub out_ty: Ty<'tcx>,
    pub idx: usize,
    pub results: Vec<V<'tcx>>,
    pub slot: usize,
    pub dest: Ptr<'tcx>,
    pub target: BasicBlock,
    /// Some(acc): a fold - the closure gets (acc, item) and its result is the next acc; None: a map collecting the results
    pub acc: Option<(V<'tcx>, Ty<'tcx>)>,
}
#[derive(Clone)]
pub struct State<'tcx> {
    pub cells: Vec<Cell<'tcx>>,
    pub frames: Vec<Frame<'tcx>>,
    pub trace: Vec<String>,
    /// conditions already decided on this path (term -> value): the same pure term is never forked on twice
    pub decided: Vec<(T, u128)>,
    /// abstract pointee cells of symbolic shared references
    pub symcells: Vec<(T, usize)>,
    /// (term, value) pairs ruled out on this path by an `otherwise` arm
    pub excluded: Vec<(T, u128)>,
    /// native continuations: an operation of the library that calls a closure once per element (`[T; N]::map`)
    pub pending: Vec<Pending<'tcx>>,
}
pub enum Outcome<'tcx> {
    Ret(V<'tcx>, Ty<'tcx>, State<'tcx>),
    Panic(String, String),
    Top(String),
    /// bounded unrolling: the path was cut because a block was re-entered more often than MIRSUM_LOOP_BOUND allows
    Cut(String),
    Ite(T, Box<Outcome<'tcx>>, Box<Outcome<'tcx>>),
    Switch(T, Vec<(u128, Outcome<'tcx>)>, Option<Box<Outcome<'tcx>>>),
}

pub struct Stats {
    pub steps: usize,
    pub leaves: usize,
    pub fresh: usize,
    pub inlined: Vec<String>,
    pub models: Vec<String>,
    pub uninterp: Vec<String>,
    /// discriminant terms of field-less enums with few variants: the values the discriminant can take
    pub discr_values: std::collections::HashMap<T, Vec<u128>>,
}

pub struct Cx<'tcx> {
    pub loop_bound: Option<usize>,
    pub dump: Option<String>,
    pub tcx: TyCtxt<'tcx>,
    pub tenv: TypingEnv<'tcx>,
    pub stats: std::cell::RefCell<Stats>,
}

const STEP_CAP: usize = 3_000_000;
const LEAF_CAP: usize = 4096;
const DEPTH_CAP: usize = 64;
/// visits of one block within one frame before a path is cut (concrete loops of the crate run at most 16 times)
const DEFAULT_LOOP_BOUND: usize = 48;
/// visits of one block within one frame for loops without symbolic forks
const CONCRETE_LOOP_CAP: usize = 4096;

type R<X> = Result<X, String>;

fn push_uniq(v: &mut Vec<String>, s: String) {
    if !v.contains(&s) {
        v.push(s);
    }
}

impl<'tcx> Cx<'tcx> {
    pub fn new(tcx: TyCtxt<'tcx>, tenv: TypingEnv<'tcx>) -> Self {
        Cx {
            loop_bound: std::env::var("MIRSUM_LOOP_BOUND").ok().and_then(|s| s.parse().ok()),
            dump: std::env::var("MIRSUM_DUMP").ok(),
            tcx,
            tenv,
            stats: std::cell::RefCell::new(Stats { steps: 0, leaves: 0, fresh: 0, inlined: vec![], models: vec![], uninterp: vec![], discr_values: Default::default() }),
        }
    }
    /// crate-qualified definition path, stable across re-exports
    pub fn iname(&self, did: DefId) -> String {
        format!("{}{}", self.tcx.crate_name(did.krate), self.tcx.def_path(did).to_string_no_crate_verbose())
    }
    pub fn norm(&self, ty: Ty<'tcx>) -> Ty<'tcx> {
        self.tcx.try_normalize_erasing_regions(self.tenv, ty::Unnormalized::new_wip(ty)).unwrap_or(ty)
    }
    pub fn field_tys(&self, ty: Ty<'tcx>) -> Option<Vec<Ty<'tcx>>> {
        match ty.kind() {
            ty::Adt(def, args) if def.is_struct() => {
                Some(def.non_enum_variant().fields.iter().map(|f| self.norm(f.ty(self.tcx, args))).collect())
            }
            ty::Tuple(tys) => Some(tys.iter().collect()),
            ty::Array(elem, len) => {
                let n = len.try_to_target_usize(self.tcx)? as usize;
                Some(vec![*elem; n])
            }
            ty::Closure(_, args) => Some(args.as_closure().upvar_tys().iter().collect()),
            // a union is represented by its canonical field (the one with the most scalar leaves); the other fields are views of it
            ty::Adt(def, _) if def.is_union() => self.union_canonical(ty).map(|(_, t)| vec![t]),
            _ => None,
        }
    }
    /// (index, type) of the field of a union that represents it: the first one with the largest number of scalar leaves
    fn union_canonical(&self, ty: Ty<'tcx>) -> Option<(usize, Ty<'tcx>)> {
        let ty::Adt(def, args) = ty.kind() else { return None };
        if !def.is_union() {
            return None;
        }
        let mut best: Option<(usize, Ty<'tcx>, usize)> = None;
        for (i, f) in def.non_enum_variant().fields.iter().enumerate() {
            let ft = self.norm(f.ty(self.tcx, args));
            if matches!(ft.kind(), ty::Adt(d, _) if d.is_union()) {
                return None; // nested unions are not modelled
            }
            let n = self.leaf_count(ft);
            if best.map(|(_, _, m)| n > m).unwrap_or(true) {
                best = Some((i, ft, n));
            }
        }
        best.map(|(i, t, _)| (i, t))
    }
    pub fn field_names(&self, ty: Ty<'tcx>) -> Option<Vec<String>> {
        match ty.kind() {
            ty::Adt(def, _) if def.is_struct() => Some(def.non_enum_variant().fields.iter().map(|f| f.name.to_string()).collect()),
            _ => self.field_tys(ty).map(|f| (0..f.len()).map(|i| i.to_string()).collect()),
        }
    }
    fn variant_field_tys(&self, ty: Ty<'tcx>, v: u32) -> Option<Vec<Ty<'tcx>>> {
        match ty.kind() {
            ty::Adt(def, args) if def.is_enum() => {
                if (v as usize) >= def.variants().len() {
                    return None;
                }
                Some(def.variant(VariantIdx::from_u32(v)).fields.iter().map(|f| self.norm(f.ty(self.tcx, args))).collect())
            }
            _ => None,
        }
    }
    fn leaf_count(&self, ty: Ty<'tcx>) -> usize {
        match self.field_tys(ty) {
            Some(f) => f.iter().map(|t| self.leaf_count(*t)).sum(),
            None => 1,
        }
    }
    fn fresh(&self, what: &str) -> T {
        let mut s = self.stats.borrow_mut();
        s.fresh += 1;
        atom(&format!("{}#{}", what, s.fresh))
    }

    /// Materialise a symbolic value of a type; references get a fresh named cell.
    pub fn mk_sym(&self, st: &mut State<'tcx>, ty: Ty<'tcx>, name: &str) -> V<'tcx> {
        match ty.kind() {
            ty::Ref(_, inner, _) | ty::RawPtr(inner, _) => {
                let v = self.mk_sym(st, *inner, name);
                st.cells.push(Cell { ty: *inner, v, name: Some(name.to_string()) });
                V::Ref(ptr0(st.cells.len() - 1))
            }
            ty::FnDef(..) => V::Fn(ty),
            _ => {
                if let (Some(ftys), Some(names)) = (self.field_tys(ty), self.field_names(ty)) {
                    V::Agg(ftys.iter().zip(names).map(|(t, n)| self.mk_sym(st, *t, &format!("{}.{}", name, n))).collect())
                } else {
                    V::Sym(atom(name))
                }
            }
        }
    }
    /// Shape the result of an uninterpreted call by its type.
    fn shape(&self, st: &mut State<'tcx>, ty: Ty<'tcx>, t: T) -> V<'tcx> {
        match ty.kind() {
            ty::Ref(_, inner, _) | ty::RawPtr(inner, _) => {
                let v = self.shape(st, *inner, app("deref", vec![t]));
                st.cells.push(Cell { ty: *inner, v, name: None });
                V::Ref(ptr0(st.cells.len() - 1))
            }
            _ => {
                if let Some(ftys) = self.field_tys(ty) {
                    if ftys.is_empty() {
                        return V::Agg(vec![]);
                    }
                    V::Agg(ftys.iter().enumerate().map(|(i, ft)| self.shape(st, *ft, app("proj", vec![t, cint(&i.to_string())]))).collect())
                } else {
                    V::Sym(t)
                }
            }
        }
    }

    fn flatten(&self, v: &V<'tcx>, ty: Ty<'tcx>, out: &mut Vec<V<'tcx>>) {
        if let Some(ftys) = self.field_tys(ty) {
            match v {
                V::Agg(fs) if fs.len() == ftys.len() => {
                    for (f, t) in fs.iter().zip(ftys) {
                        self.flatten(f, t, out);
                    }
                }
                V::Undef => {
                    for t in ftys {
                        self.flatten(&V::Undef, t, out);
                    }
                }
                V::Sym(t) => {
                    for (i, ft) in ftys.iter().enumerate() {
                        self.flatten(&V::Sym(app("proj", vec![*t, cint(&i.to_string())])), *ft, out);
                    }
                }
                other => out.push(other.clone()),
            }
        } else {
            out.push(v.clone());
        }
    }
    fn unflatten(&self, flat: &mut std::vec::IntoIter<V<'tcx>>, ty: Ty<'tcx>) -> R<V<'tcx>> {
        if let Some(ftys) = self.field_tys(ty) {
            let mut fs = vec![];
            for t in ftys {
                fs.push(self.unflatten(flat, t)?);
            }
            Ok(V::Agg(fs))
        } else {
            flat.next().ok_or_else(|| "bad view: too few leaves".to_string())
        }
    }
    fn review(&self, v: &V<'tcx>, from: Ty<'tcx>, to: Ty<'tcx>) -> R<V<'tcx>> {
        if from == to {
            return Ok(v.clone());
        }
        if self.leaf_count(from) != self.leaf_count(to) {
            return Err(format!("bad view: {:?} as {:?}", from, to));
        }
        let mut flat = vec![];
        self.flatten(v, from, &mut flat);
        let mut it = flat.into_iter();
        let r = self.unflatten(&mut it, to)?;
        if it.next().is_some() {
            return Err(format!("bad view: {:?} as {:?} (leftover leaves)", from, to));
        }
        Ok(r)
    }
    fn step_ty(&self, ty: Ty<'tcx>, variant: &mut Option<u32>, pe: PE) -> R<Ty<'tcx>> {
        match pe {
            PE::Var(k) => {
                *variant = Some(k);
                Ok(ty)
            }
            PE::F(i) => {
                let ftys = match variant.take() {
                    Some(k) => self.variant_field_tys(ty, k),
                    None => self.field_tys(ty),
                };
                match ftys {
                    Some(f) if i < f.len() => Ok(f[i]),
                    _ => Err(format!("cannot project {:?} at {}", ty, i)),
                }
            }
        }
    }
    fn ty_at(&self, mut ty: Ty<'tcx>, path: &[PE]) -> R<Ty<'tcx>> {
        let mut variant = None;
        for &pe in path {
            ty = self.step_ty(ty, &mut variant, pe)?;
        }
        Ok(ty)
    }
    fn nav(&self, v: &V<'tcx>, path: &[PE]) -> R<V<'tcx>> {
        let mut cur = v.clone();
        for &pe in path {
            cur = match (cur, pe) {
                (V::Agg(fs), PE::F(i)) => fs.get(i).cloned().ok_or("nav: field out of range")?,
                (V::Enum(k, fs), PE::Var(j)) => {
                    if k == j {
                        V::Enum(k, fs)
                    } else {
                        V::Undef
                    }
                }
                (V::Enum(_, fs), PE::F(i)) => fs.get(i).cloned().ok_or("nav: payload out of range")?,
                (V::Sym(t), PE::F(i)) => V::Sym(app("proj", vec![t, cint(&i.to_string())])),
                (V::Sym(t), PE::Var(k)) => V::Sym(app("variant", vec![t, cint(&k.to_string())])),
                (V::Undef, _) => V::Undef,
                (other, pe) => return Err(format!("nav {:?} into {:?}", pe, other)),
            };
        }
        Ok(cur)
    }
    fn nav_set(&self, v: &mut V<'tcx>, ty: Ty<'tcx>, path: &[PE], new: V<'tcx>) -> R<()> {
        if path.is_empty() {
            *v = new;
            return Ok(());
        }
        match path[0] {
            PE::F(i) => {
                let ftys = self.field_tys(ty).ok_or_else(|| format!("nav_set: no fields in {:?}", ty))?;
                if !matches!(v, V::Agg(fs) if fs.len() == ftys.len()) {
                    let mut flat = vec![];
                    self.flatten(&v.clone(), ty, &mut flat);
                    *v = self.unflatten(&mut flat.into_iter(), ty)?;
                }
                if let V::Agg(fs) = v {
                    if i >= fs.len() {
                        return Err("nav_set: index out of range".into());
                    }
                    self.nav_set(&mut fs[i], ftys[i], &path[1..], new)
                } else {
                    Err("nav_set: not an aggregate".into())
                }
            }
            PE::Var(k) => {
                if path.len() < 2 {
                    return Ok(());
                }
                let i = match path[1] {
                    PE::F(i) => i,
                    _ => return Err("nav_set: variant without field".into()),
                };
                let ftys = self.variant_field_tys(ty, k).ok_or("nav_set: variant tys")?;
                match v {
                    V::Enum(kk, fs) if *kk == k && i < fs.len() => self.nav_set(&mut fs[i], ftys[i], &path[2..], new),
                    other => Err(format!("nav_set into enum payload of {:?}", other)),
                }
            }
        }
    }
    pub fn read(&self, st: &State<'tcx>, p: &Ptr<'tcx>) -> R<V<'tcx>> {
        let c = &st.cells[p.cell];
        let mut cur = c.v.clone();
        let mut cty = c.ty;
        for seg in &p.segs {
            if let Some(vty) = seg.view {
                cur = self.review(&cur, cty, vty)?;
                cty = vty;
            }
            let nty = self.ty_at(cty, &seg.path)?;
            cur = self.nav(&cur, &seg.path)?;
            cty = nty;
        }
        if let Some((start, len)) = p.win {
            let n = self.field_tys(cty).map(|f| f.len()).ok_or("window over a non-array")?;
            if start + len > n {
                return Err("slice window out of range".into());
            }
            cur = match cur {
                V::Agg(fs) if fs.len() == n => V::Agg(fs[start..start + len].to_vec()),
                V::Undef => V::Agg(vec![V::Undef; len]),
                V::Sym(t) => V::Agg((start..start + len).map(|i| V::Sym(app("proj", vec![t, cint(&i.to_string())]))).collect()),
                other => return Err(format!("window over {:?}", other)),
            };
        }
        Ok(cur)
    }
    fn ptr_ty(&self, st: &State<'tcx>, p: &Ptr<'tcx>) -> R<Ty<'tcx>> {
        let mut cty = st.cells[p.cell].ty;
        for seg in &p.segs {
            if let Some(vty) = seg.view {
                cty = vty;
            }
            cty = self.ty_at(cty, &seg.path)?;
        }
        if p.win.is_some() {
            if let ty::Array(elem, _) = cty.kind() {
                return Ok(Ty::new_slice(self.tcx, *elem));
            }
            return Err("window over a non-array".into());
        }
        Ok(cty)
    }
    /// the array type a windowed pointer ranges over
    fn win_elem_ty(&self, st: &State<'tcx>, p: &Ptr<'tcx>) -> R<Ty<'tcx>> {
        let mut q = p.clone();
        q.win = None;
        match self.ptr_ty(st, &q)?.kind() {
            ty::Array(elem, _) => Ok(*elem),
            other => Err(format!("window over {:?}", other)),
        }
    }
    /// see the call site: `p` = [.., Seg { view: Some([E; n]), path: [F(i)] }] over an object U; returns the pointer to the sub-object
    /// of U that occupies exactly the leaves of `want` starting at element i, viewed as `want`
    fn sub_object_of_view(&self, st: &State<'tcx>, p: &Ptr<'tcx>, want: Ty<'tcx>) -> Option<Ptr<'tcx>> {
        if p.win.is_some() || p.segs.len() < 2 {
            return None;
        }
        let last = p.segs.last()?;
        let (vty, i) = match (last.view, last.path.as_slice()) {
            (Some(v), [PE::F(i)]) => (v, *i),
            _ => return None,
        };
        let elem = match vty.kind() {
            ty::Array(e, _) => *e,
            _ => return None,
        };
        let mut base = p.clone();
        base.segs.pop();
        let uty = self.ptr_ty(st, &base).ok()?;
        if self.leaf_count(uty) != self.leaf_count(vty) {
            return None;
        }
        let (mut off, cnt) = (i * self.leaf_count(elem), self.leaf_count(want));
        let mut t = uty;
        let mut path = vec![];
        loop {
            if off == 0 && self.leaf_count(t) == cnt {
                break;
            }
            let fs = self.field_tys(t)?;
            let mut found = false;
            let mut acc = 0usize;
            for (j, f) in fs.iter().enumerate() {
                let lc = self.leaf_count(*f);
                if off >= acc && off + cnt <= acc + lc {
                    path.push(PE::F(j));
                    off -= acc;
                    t = *f;
                    found = true;
                    break;
                }
                acc += lc;
            }
            if !found {
                return None; // the range straddles two sub-objects
            }
        }
        base.segs.last_mut()?.path.extend(path);
        if t != want {
            base.segs.push(Seg { view: Some(want), path: vec![] });
        }
        Some(base)
    }
    fn elem_ptr(&self, p: &Ptr<'tcx>, i: usize) -> R<Ptr<'tcx>> {
        let (start, len) = p.win.ok_or("element of a non-slice pointer")?;
        if i >= len {
            return Err(format!("PANIC:slice index {} out of range for length {}", i, len));
        }
        let mut q = p.clone();
        q.win = None;
        q.segs.last_mut().unwrap().path.push(PE::F(start + i));
        Ok(q)
    }
    /// leaf offset of the pointee inside its cell, in layout order
    fn ptr_offset(&self, st: &State<'tcx>, p: &Ptr<'tcx>) -> Option<usize> {
        let mut cty = st.cells[p.cell].ty;
        let mut off = 0usize;
        for seg in &p.segs {
            if let Some(vty) = seg.view {
                cty = vty;
            }
            for &pe in &seg.path {
                match pe {
                    PE::F(i) => {
                        let ftys = self.field_tys(cty)?;
                        if i == ftys.len() && i > 0 && matches!(cty.kind(), ty::Array(..)) {
                            // one past the end of an array
                            off += ftys.iter().map(|t| self.leaf_count(*t)).sum::<usize>();
                            cty = ftys[0];
                            continue;
                        }
                        if i >= ftys.len() {
                            return None;
                        }
                        off += ftys[..i].iter().map(|t| self.leaf_count(*t)).sum::<usize>();
                        cty = ftys[i];
                    }
                    PE::Var(_) => return None,
                }
            }
        }
        if let Some((start, _)) = p.win {
            if let ty::Array(elem, _) = cty.kind() {
                off += start * self.leaf_count(*elem);
            }
        }
        Some(off)
    }
    fn upd(&self, v: V<'tcx>, ty: Ty<'tcx>, segs: &[Seg<'tcx>], new: V<'tcx>) -> R<V<'tcx>> {
        if segs.is_empty() {
            return Ok(new);
        }
        let seg = &segs[0];
        let (mut vv, vty) = match seg.view {
            Some(t) => (self.review(&v, ty, t)?, t),
            None => (v, ty),
        };
        let sub = self.nav(&vv, &seg.path)?;
        let sub_ty = self.ty_at(vty, &seg.path)?;
        let nsub = self.upd(sub, sub_ty, &segs[1..], new)?;
        self.nav_set(&mut vv, vty, &seg.path, nsub)?;
        if seg.view.is_some() {
            self.review(&vv, vty, ty)
        } else {
            Ok(vv)
        }
    }
    pub fn write(&self, st: &mut State<'tcx>, p: &Ptr<'tcx>, new: V<'tcx>) -> R<()> {
        if p.win.is_some() {
            return Err("write of a whole slice".into());
        }
        let c = st.cells[p.cell].clone();
        let nv = self.upd(c.v, c.ty, &p.segs, new)?;
        st.cells[p.cell].v = nv;
        Ok(())
    }
    /// `p as *const inner`: the same address seen as another type
    fn cast_ptr(&self, st: &State<'tcx>, mut p: Ptr<'tcx>, inner: Ty<'tcx>) -> R<Ptr<'tcx>> {
        let cur = self.ptr_ty(st, &p)?;
        if cur != inner {
            if self.field_tys(inner).is_none() && matches!(inner.kind(), ty::Slice(_) | ty::Str) {
                return Err(format!("pointer cast to unsized {:?}", inner));
            }
            if self.leaf_count(cur) < self.leaf_count(inner) {
                // A pointer to element i of a flat array VIEW of a struct (`&m_as_[S; 16][i * 4..]`.as_ptr()) seen as
                // a larger type: if the leaves [off, off + k) are exactly one sub-object of the underlying struct,
                // the pointer designates that sub-object.
                if let Some(q) = self.sub_object_of_view(st, &p, inner) {
                    return Ok(q);
                }
                if let Some(q) = self.wider_view(st, &p, inner) {
                    return Ok(q);
                }
                return Err(format!("bad view: {:?} as larger {:?}", cur, inner));
            }
            if self.leaf_count(cur) == self.leaf_count(inner) {
                p.segs.push(Seg { view: Some(inner), path: vec![] });
            } else {
                // pointer to the first element(s) of a larger object (as_ptr idiom)
                let mut q = p.clone();
                let mut t = cur;
                loop {
                    if self.leaf_count(t) == self.leaf_count(inner) {
                        break;
                    }
                    match self.field_tys(t) {
                        Some(f) if !f.is_empty() => {
                            q.segs.last_mut().unwrap().path.push(PE::F(0));
                            t = f[0];
                        }
                        _ => return Err(format!("bad view: {:?} as {:?}", cur, inner)),
                    }
                }
                if t != inner {
                    q.segs.push(Seg { view: Some(inner), path: vec![] });
                }
                p = q;
            }
        }
        Ok(p)
    }

    /// The scalar type all leaves of `t` have, if they all have the same one (`Matrix3<S>`, `[Vector2<S>; 2]`: S).
    fn uniform_leaf(&self, t: Ty<'tcx>) -> Option<Ty<'tcx>> {
        match self.field_tys(t) {
            None => Some(t),
            Some(fs) => {
                let mut it = fs.iter();
                let first = self.uniform_leaf(*it.next()?)?;
                for f in it {
                    if self.uniform_leaf(*f)? != first {
                        return None;
                    }
                }
                Some(first)
            }
        }
    }

    /// `p.offset(delta)` in units of the pointee.  Inside an array (or an array view) the element index moves; a pointer into
    /// a struct whose leaves all have the pointee's scalar type (`&mut m.x.x as *mut S` for a `Matrix3<S>`, `m as *mut _ as *mut S`)
    /// is first re-expressed as a pointer into the flat array view of the enclosing object.  One past the end is allowed
    /// (it cannot be dereferenced: reads and writes through it fail).
    fn offset_ptr(&self, st: &State<'tcx>, p: &Ptr<'tcx>, delta: i128) -> R<Ptr<'tcx>> {
        if p.win.is_some() {
            return Err("offset of a slice pointer".into());
        }
        let q = self.as_elem_ptr(st, p)?;
        let mut r = q.clone();
        let last = r.segs.last_mut().unwrap();
        let Some(PE::F(i)) = last.path.pop() else { return Err("offset: not an element pointer".into()) };
        let ni = i as i128 + delta;
        let mut arr = r.clone();
        arr.win = None;
        let n = match self.ptr_ty(st, &arr)?.kind() {
            ty::Array(_, n) => n.try_to_target_usize(self.tcx).ok_or("offset: array length")? as i128,
            other => return Err(format!("offset inside {:?}", other)),
        };
        if ni < 0 || ni > n {
            return Err(format!("PANIC:pointer offset {} out of the object (length {})", ni, n));
        }
        r.segs.last_mut().unwrap().path.push(PE::F(ni as usize));
        Ok(r)
    }

    /// Enclosing objects of the pointee, innermost first: every prefix of the access path, as long as the layout of the enclosing type
    /// is defined by the language (arrays, `repr(C)` / `repr(transparent)` structs, unions represented by their canonical field, and
    /// the synthetic tuple views made by `wider_view`).
    fn flat_candidates(&self, st: &State<'tcx>, p: &Ptr<'tcx>) -> Vec<Ptr<'tcx>> {
        let flat_layout = |t: Ty<'tcx>, synthetic: bool| -> bool {
            match t.kind() {
                ty::Array(..) => true,
                ty::Adt(d, _) => d.is_struct() && (d.repr().c() || d.repr().transparent()) || d.is_union(),
                ty::Tuple(_) => synthetic,
                _ => self.field_tys(t).is_none(),
            }
        };
        let mut base = p.clone();
        base.win = None;
        let mut candidates = vec![];
        loop {
            let synthetic = base.segs.last().map(|s| s.view.is_some() && s.path.is_empty()).unwrap_or(false);
            match self.ptr_ty(st, &base) {
                Ok(t) if flat_layout(t, synthetic) => candidates.push(base.clone()),
                _ => break,
            }
            let last = base.segs.last_mut().unwrap();
            if last.path.pop().is_none() {
                if base.segs.len() > 1 {
                    base.segs.pop();
                } else {
                    break;
                }
            }
        }
        candidates
    }

    /// `p as *const W` where W has more scalars than the pointee (`v3_as_array.as_ptr() as *const Vector2<S>`): inside the largest
    /// enclosing object whose scalars all have W's scalar type, the pointer designates the scalars [off, off + k) seen as a W.
    /// The object is viewed as the tuple (scalar x off, W, scalar x rest) - a type with the same scalars in the same order.
    fn wider_view(&self, st: &State<'tcx>, p: &Ptr<'tcx>, want: Ty<'tcx>) -> Option<Ptr<'tcx>> {
        if p.win.is_some() {
            return None;
        }
        let leaf = self.uniform_leaf(want)?;
        let k = self.leaf_count(want);
        let off_p = self.ptr_offset(st, p)?;
        for b in self.flat_candidates(st, p).into_iter().rev() {
            let Ok(bty) = self.ptr_ty(st, &b) else { continue };
            if matches!(bty.kind(), ty::Adt(d, _) if d.is_union() || d.is_enum()) || self.uniform_leaf(bty) != Some(leaf) {
                continue;
            }
            let n = self.leaf_count(bty);
            let Some(off_b) = self.ptr_offset(st, &b) else { continue };
            if off_p < off_b || off_p - off_b + k > n {
                continue;
            }
            let off = off_p - off_b;
            let mut elems: Vec<Ty<'tcx>> = vec![leaf; off];
            elems.push(want);
            elems.extend(std::iter::repeat(leaf).take(n - off - k));
            let tup = Ty::new_tup(self.tcx, &elems);
            let mut q = b.clone();
            q.segs.push(Seg { view: Some(tup), path: vec![PE::F(off)] });
            return Some(q);
        }
        None
    }

    /// A pointer equal to `p` whose last step is an index into an array (or array view) of the pointee type.
    fn as_elem_ptr(&self, st: &State<'tcx>, p: &Ptr<'tcx>) -> R<Ptr<'tcx>> {
        let pointee = self.ptr_ty(st, p)?;
        let candidates = self.flat_candidates(st, p);
        let k = self.leaf_count(pointee);
        let leaf = self.uniform_leaf(pointee).ok_or("offset: mixed pointee")?;
        if k == 0 {
            return Err("offset of a pointer to a zero-sized type".into());
        }
        let off_p = self.ptr_offset(st, p).ok_or("offset: no layout position")?;
        // the largest enclosing object with uniform leaves
        for b in candidates.into_iter().rev() {
            let Ok(bty) = self.ptr_ty(st, &b) else { continue };
            if matches!(bty.kind(), ty::Adt(d, _) if d.is_union() || d.is_enum()) {
                continue;
            }
            if self.uniform_leaf(bty) != Some(leaf) {
                continue;
            }
            let n = self.leaf_count(bty);
            let Some(off_b) = self.ptr_offset(st, &b) else { continue };
            if off_p < off_b || n % k != 0 || (off_p - off_b) % k != 0 || off_p - off_b >= n.max(1) && n != 0 {
                continue;
            }
            let mut q = b.clone();
            let aty = Ty::new_array(self.tcx, pointee, (n / k) as u64);
            q.segs.push(Seg { view: Some(aty), path: vec![PE::F((off_p - off_b) / k)] });
            return Ok(q);
        }
        Err(format!("offset of a pointer to {:?} that is not inside a uniform object", pointee))
    }

    /// (size, alignment) in bytes of a type without parameters
    fn concrete_layout(&self, t: Ty<'tcx>) -> Option<(u64, u64)> {
        use rustc_middle::ty::TypeVisitableExt;
        if t.has_non_region_param() {
            return None;
        }
        let l = self.tcx.layout_of(self.tenv.as_query_input(t)).ok()?;
        Some((l.size.bytes(), l.align.abi.bytes()))
    }

    /// Size (`size`) or alignment of a type all of whose scalar leaves have the same type L, as a term over L: `size_leaves(n, L)` /
    /// `align_leaves(L)`.  (n fields of one type need no padding under any layout; the alignment is that of L.)
    fn layout_term(&self, t: Ty<'tcx>, size: bool) -> Option<T> {
        use rustc_middle::ty::TypeVisitableExt;
        if !t.has_non_region_param() {
            return None; // concrete: the const evaluator knows
        }
        let leaf = self.uniform_leaf(t)?;
        if !matches!(leaf.kind(), ty::Param(_)) {
            return None;
        }
        let n = self.leaf_count(t);
        let l = cstr(&format!("{:?}", leaf));
        Some(if size { app("size_leaves", vec![cint(&n.to_string()), l]) } else { app("align_leaves", vec![l]) })
    }

    /// comparison of two layout terms over the same leaf type
    fn layout_cmp(op: BinOp, a: T, b: T) -> Option<bool> {
        use std::cmp::Ordering::*;
        let ord = match (terms::get(a), terms::get(b)) {
            (terms::Term::App(f, x), terms::Term::App(g, y)) if f == "size_leaves" && g == "size_leaves" && x.len() == 2 && y.len() == 2 && x[1] == y[1] => {
                match (terms::get(x[0]), terms::get(y[0])) {
                    (terms::Term::CInt(m), terms::Term::CInt(n)) => m.parse::<u64>().ok()?.cmp(&n.parse::<u64>().ok()?),
                    _ => return None,
                }
            }
            (terms::Term::App(f, x), terms::Term::App(g, y)) if f == "align_leaves" && g == "align_leaves" && x == y => Equal,
            _ => return None,
        };
        Some(match op {
            BinOp::Eq => ord == Equal,
            BinOp::Ne => ord != Equal,
            BinOp::Lt => ord == Less,
            BinOp::Le => ord != Greater,
            BinOp::Gt => ord == Greater,
            BinOp::Ge => ord != Less,
            _ => return None,
        })
    }

    /// `copy(src, dst, n)`: n consecutive pointees, all read before any is written (memmove semantics)
    fn copy_elems(&self, st: &mut State<'tcx>, src: &Ptr<'tcx>, dst: &Ptr<'tcx>, n: usize) -> R<()> {
        if n == 0 {
            return Ok(());
        }
        if n == 1 {
            let v = self.read(st, src)?;
            return self.write(st, dst, v);
        }
        if n > 64 {
            return Err("copy of more than 64 elements".into());
        }
        let mut vals = vec![];
        for i in 0..n {
            let q = self.offset_ptr(st, src, i as i128)?;
            vals.push(self.read(st, &q)?);
        }
        for (i, v) in vals.into_iter().enumerate() {
            let q = self.offset_ptr(st, dst, i as i128)?;
            self.write(st, &q, v)?;
        }
        Ok(())
    }

    fn subst<X: ty::TypeFoldable<TyCtxt<'tcx>>>(&self, fr: &Frame<'tcx>, x: X) -> X {
        fr.inst.instantiate_mir_and_normalize_erasing_regions(self.tcx, self.tenv, EarlyBinder::bind(x))
    }

    fn eval_place(&self, st: &mut State<'tcx>, place: &Place<'tcx>) -> R<Ptr<'tcx>> {
        let fr = st.frames.last().unwrap().clone();
        let mut p = ptr0(fr.locals[place.local.as_usize()]);
        for elem in place.projection.iter() {
            match elem {
                ProjectionElem::Deref => match self.read(st, &p)? {
                    V::Ref(q) => p = q,
                    V::Sym(t) => {
                        // a shared reference of unknown origin (an item handed out by an opaque iterator): reads go
                        // to one abstract cell per pointer term, holding `deref(p)` shaped by the pointee type
                        let pty = self.ptr_ty(st, &p)?;
                        match pty.kind() {
                            ty::Ref(_, inner, m) if m.is_not() && !matches!(inner.kind(), ty::Slice(_) | ty::Str | ty::Dynamic(..)) => {
                                if let Some(&(_, c)) = st.symcells.iter().find(|(d, _)| *d == t) {
                                    p = ptr0(c);
                                } else {
                                    let v = self.shape(st, *inner, app("deref", vec![t]));
                                    st.cells.push(Cell { ty: *inner, v, name: None });
                                    let c = st.cells.len() - 1;
                                    st.symcells.push((t, c));
                                    p = ptr0(c);
                                }
                            }
                            _ => return Err(format!("deref of symbolic {}", show(t))),
                        }
                    }
                    other => return Err(format!("deref of non-ref {:?}", other)),
                },
                ProjectionElem::Field(f, fty) => {
                    if p.win.is_some() {
                        return Err("field of a slice".into());
                    }
                    let pty = self.ptr_ty(st, &p)?;
                    if let Some((ci, _)) = self.union_canonical(pty) {
                        // a field of a union: the canonical field, or a view of it
                        p.segs.last_mut().unwrap().path.push(PE::F(0));
                        if f.as_usize() != ci {
                            let want = self.norm(self.subst(&fr, fty));
                            p = self.cast_ptr(st, p, want)?;
                        }
                    } else if matches!(pty.kind(), ty::Adt(d, _) if d.is_union()) {
                        return Err("field of an unmodelled union".into());
                    } else {
                        p.segs.last_mut().unwrap().path.push(PE::F(f.as_usize()))
                    }
                }
                ProjectionElem::Index(l) => match self.read(st, &ptr0(fr.locals[l.as_usize()]))? {
                    V::Int(i) => {
                        if p.win.is_some() {
                            p = self.elem_ptr(&p, i as usize)?;
                        } else {
                            p.segs.last_mut().unwrap().path.push(PE::F(i as usize))
                        }
                    }
                    other => return Err(format!("symbolic index {:?}", other)),
                },
                ProjectionElem::ConstantIndex { offset, from_end, .. } => {
                    if let Some((_, len)) = p.win {
                        let i = if from_end { len.checked_sub(offset as usize).ok_or("constant index from end")? } else { offset as usize };
                        p = self.elem_ptr(&p, i)?;
                    } else if from_end {
                        let n = self.field_tys(self.ptr_ty(st, &p)?).map(|f| f.len()).ok_or("constant index from end of a non-array")?;
                        p.segs.last_mut().unwrap().path.push(PE::F(n - offset as usize))
                    } else {
                        p.segs.last_mut().unwrap().path.push(PE::F(offset as usize))
                    }
                }
                ProjectionElem::Subslice { from, to, from_end } => {
                    let (start, len) = match p.win {
                        Some(w) => w,
                        None => (0, self.field_tys(self.ptr_ty(st, &p)?).map(|f| f.len()).ok_or("subslice of a non-array")?),
                    };
                    let (from, to) = (from as usize, to as usize);
                    let nlen = if from_end { len.checked_sub(from + to) } else { to.checked_sub(from) }.ok_or("subslice bounds")?;
                    p.win = Some((start + from, nlen));
                }
                ProjectionElem::Downcast(_, k) => p.segs.last_mut().unwrap().path.push(PE::Var(k.as_u32())),
                other => return Err(format!("projection {:?}", other)),
            }
        }
        Ok(p)
    }

    fn const_value(&self, st: &mut State<'tcx>, c: &mir::ConstOperand<'tcx>) -> R<V<'tcx>> {
        let cc = self.subst(st.frames.last().unwrap(), c.const_);
        let ty = cc.ty();
        if let ty::FnDef(..) = ty.kind() {
            return Ok(V::Fn(ty));
        }
        use rustc_middle::ty::TypeVisitableExt;
        // a promoted whose body is not available (cross-crate inlined bodies), or a constant that is still
        // generic, cannot be evaluated: keep it as an opaque term instead of asking the const evaluator
        let mut evaluable = !cc.has_non_region_param();
        if let mir::Const::Unevaluated(uv, _) = cc {
            if let Some(p) = uv.promoted {
                if self.tcx.promoted_mir(uv.def).get(p).is_none() {
                    evaluable = false;
                }
            }
        }
        if let mir::Const::Val(val, vty) = cc {
            // an already evaluated constant whose TYPE still mentions a parameter (`None::<&[S]>`): its value is known
            if !evaluable && matches!(vty.kind(), ty::Adt(d, _) if d.is_enum()) {
                if let Some(v) = self.destructure_const(val, vty, 0) {
                    return Ok(v);
                }
            }
        }
        if !evaluable {
            if let mir::Const::Unevaluated(uv, _) = cc {
                if uv.promoted.is_none() {
                    let path = self.tcx.def_path_str(uv.def);
                    let which = if path.ends_with("SizedTypeProperties::SIZE") { Some(true) } else if path.ends_with("SizedTypeProperties::ALIGN") { Some(false) } else { None };
                    if let (Some(size), Some(t)) = (which, uv.args.get(0).and_then(|a| a.as_type())) {
                        if let Some(t) = self.layout_term(t, size) {
                            return Ok(V::Sym(t));
                        }
                    }
                }
                if let Some(v) = self.eval_promoted(st, uv) {
                    return Ok(v);
                }
            }
        }
        // A promoted of a PROVIDED trait method that is being interpreted for a type which overrides the method (the slice iterators
        // run through `Iterator::all`'s default body): rustc would resolve the instance to the override, which has no such
        // promoted.  It is interpreted here or kept opaque - never handed to the const evaluator.
        if evaluable {
            if let mir::Const::Unevaluated(uv, _) = cc {
                if uv.promoted.is_some() && matches!(self.tcx.def_kind(self.tcx.parent(uv.def)), rustc_hir::def::DefKind::Trait) {
                    if let Some(v) = self.eval_promoted(st, uv) {
                        return Ok(v);
                    }
                    evaluable = false;
                }
            }
        }
        if std::env::var("MIRSUM_DEBUG").is_ok() { if let mir::Const::Unevaluated(uv, _) = cc { eprintln!("CONST-EVAL {:?} promoted={:?} evaluable={} n={}", uv.def, uv.promoted, evaluable, self.tcx.promoted_mir(uv.def).len()); } }
        let scalar = if evaluable { cc.try_eval_scalar_int(self.tcx, self.tenv) } else { None };
        if let Some(s) = scalar {
            let bits = s.to_bits(s.size());
            if ty.is_floating_point() {
                return Ok(match s.size().bytes() {
                    4 => V::Sym(cfloat((f32::from_bits(bits as u32) as f64).to_bits(), 32)),
                    8 => V::Sym(cfloat(bits as u64, 64)),
                    _ => V::Sym(atom(&format!("const<{:?}>", cc))),
                });
            }
            // a field-less enum constant (Ordering, ControlFlow<(), ()>, ...) is an enum value, not an integer
            if let ty::Adt(def, _) = ty.kind() {
                if def.is_enum() {
                    for (vi, _) in def.variants().iter_enumerated() {
                        if let Some(d) = ty.discriminant_for_variant(self.tcx, vi) {
                            let size = s.size();
                            if size.truncate(d.val) == bits {
                                let nf = def.variant(vi).fields.len();
                                return Ok(V::Enum(vi.as_u32(), vec![V::Agg(vec![]); nf]));
                            }
                        }
                    }
                }
            }
            return Ok(V::Int(bits));
        }
        if ty.is_unit() {
            return Ok(V::Agg(vec![]));
        }
        if let Some(Ok(val)) = evaluable.then(|| cc.eval(self.tcx, self.tenv, c.span)) {
            if let ty::Ref(_, inner, _) = ty.kind() {
                if inner.is_str() {
                    if let Some(bytes) = val.try_get_slice_bytes_for_diagnostics(self.tcx) {
                        return Ok(V::Str(String::from_utf8_lossy(bytes).into_owned()));
                    }
                }
            }
            if let mir::ConstValue::ZeroSized = val {
                if let Some(ftys) = self.field_tys(ty) {
                    if ftys.is_empty() {
                        return Ok(V::Agg(vec![]));
                    }
                }
            }
            // `const P: [usize; 4] = [1, 3, 0, 2]` and the like: a structured value, so that indexing it is concrete
            if let Some(v) = self.destructure_const(val, ty, 0) {
                return Ok(v);
            }
            // a reference to such a table (`TABLE.iter()`, `&TABLE[..]`): a cell holding the structured value
            if let (ty::Ref(_, inner, _), mir::ConstValue::Scalar(rustc_middle::mir::interpret::Scalar::Ptr(ptr, _))) = (ty.kind(), val) {
                if matches!(inner.kind(), ty::Array(..) | ty::Tuple(_) | ty::Adt(..)) {
                    let (prov, offset) = ptr.prov_and_relative_offset();
                    if let rustc_middle::mir::interpret::GlobalAlloc::Memory(_) = self.tcx.global_alloc(prov.alloc_id()) {
                        let inner_val = mir::ConstValue::Indirect { alloc_id: prov.alloc_id(), offset };
                        if let Some(v) = self.destructure_const(inner_val, *inner, 0) {
                            st.cells.push(Cell { ty: *inner, v, name: None });
                            return Ok(V::Ref(ptr0(st.cells.len() - 1)));
                        }
                    }
                }
            }
        }
        let shown = match if evaluable { cc.eval(self.tcx, self.tenv, c.span) } else { Err(rustc_middle::mir::interpret::ErrorHandled::TooGeneric(c.span)) } {
            Ok(val) => {
                if let Some(items) = self.str_slice_const(val, ty) {
                    // a constant table of names (`FIELDS`): a real array cell seen through a full window, so that
                    // iterating or indexing it is concrete
                    if let ty::Ref(_, inner, _) = ty.kind() {
                        if let ty::Slice(elem) = inner.kind() {
                            let n = items.len();
                            let aty = Ty::new_array(self.tcx, *elem, n as u64);
                            let shown = format!("&[{}]", items.iter().map(|x| format!("{:?}", x)).collect::<Vec<_>>().join(", "));
                            st.cells.push(Cell { ty: aty, v: V::Agg(items.into_iter().map(V::Str).collect()), name: Some(shown) });
                            let mut q = ptr0(st.cells.len() - 1);
                            q.win = Some((0, n));
                            return Ok(V::Ref(q));
                        }
                    }
                    unreachable!()
                }
                format!("{}", mir::Const::Val(val, ty))
            }
            Err(_) => format!("{}", cc),
        };
        let t = app("const", vec![cstr(&shown)]);
        if let ty::Ref(_, inner, _) = ty.kind() {
            let v = self.shape(st, *inner, t);
            st.cells.push(Cell { ty: *inner, v, name: None });
            return Ok(V::Ref(ptr0(st.cells.len() - 1)));
        }
        Ok(self.shape(st, ty, t))
    }

    /// contents of a `&[&str]` constant (serde field tables), read from the constant's allocations
    /// A promoted whose type still mentions the root's parameters (`&ControlFlow::Continue(())` inside a generic
    /// iterator method): its body is one straight-line block, which is interpreted directly.
    fn eval_promoted(&self, st: &mut State<'tcx>, uv: mir::UnevaluatedConst<'tcx>) -> Option<V<'tcx>> {
        let tcx = self.tcx;
        let (body, inst) = match uv.promoted {
            Some(p) => (tcx.promoted_mir(uv.def).get(p)?, Instance::new_raw(uv.def, uv.args)),
            None => {
                // an associated constant whose owner is still generic in the root's parameters but whose value is not
                // (`<slice::Iter<'_, S> as TrustedRandomAccessNoCoerce>::MAY_HAVE_SIDE_EFFECT`): interpret its initialiser
                let r0 = Instance::try_resolve(tcx, self.tenv, uv.def, uv.args);
                let inst = r0.ok()??;
                let did = inst.def_id();
                if !matches!(tcx.def_kind(did), rustc_hir::def::DefKind::AssocConst { .. } | rustc_hir::def::DefKind::Const { .. }) {
                    return None;
                }
                // (no query says whether a foreign constant's CTFE body was encoded: a missing one is an ICE, caught here)
                // A boolean flag of core's iterator plumbing does not depend on the element type: evaluate it with the root's
                // type parameters replaced by a plain scalar (only for bool constants defined in core / alloc / std).
                let krate = tcx.crate_name(did.krate);
                let cty = tcx.type_of(did).instantiate_identity().skip_norm_wip();
                // a literal initialiser has no CTFE body at all: rustc records its value
                if let Some((val, vty)) = tcx.trivial_const(did) {
                    if let Some(v) = self.destructure_const(val, vty, 0) {
                        return Some(v);
                    }
                    return None;
                }
                let ctfe_body = |did: DefId| -> Option<&'tcx mir::Body<'tcx>> {
                    std::panic::catch_unwind(std::panic::AssertUnwindSafe(|| tcx.mir_for_ctfe(did))).ok()
                };
                {
                    use rustc_middle::ty::{TypeFoldable, TypeVisitableExt};
                    // A table constant of a generic impl (`impl<S> Matrix3<S> { const PLANES: [(usize, usize); 3] = .. }`): its
                    // type mentions no parameter; it is evaluated with the parameters replaced by three different scalar types
                    // and used only if all three evaluations agree (a value that depended on the parameter would differ).
                    if !cty.has_non_region_param() && !cty.is_bool() {
                        let mut vals: Vec<V<'tcx>> = vec![];
                        for sub in [tcx.types.f32, tcx.types.f64, tcx.types.u8] {
                            let args2 = uv.args.fold_with(&mut ty::BottomUpFolder { tcx, ty_op: |t| if matches!(t.kind(), ty::Param(_)) { sub } else { t }, lt_op: |l| l, ct_op: |c| c });
                            let uv2 = mir::UnevaluatedConst { def: uv.def, args: args2, promoted: None };
                            // (the scalar substitutes may not satisfy the impl's bounds - `impl<S: VectorSpace, R> .. for Decomposed<S, R>`:
                            // then the initialiser itself is interpreted, below)
                            let ok_bounds = std::panic::catch_unwind(std::panic::AssertUnwindSafe(|| Instance::try_resolve(tcx, self.tenv, uv2.def, uv2.args)));
                            if !matches!(ok_bounds, Ok(Ok(Some(_)))) {
                                vals.clear();
                                break;
                            }
                            match mir::Const::Unevaluated(uv2, cty).eval(tcx, self.tenv, rustc_span::DUMMY_SP) {
                                Ok(val) => match self.destructure_const(val, cty, 0) {
                                    Some(v) => vals.push(v),
                                    None => { vals.clear(); break; }
                                },
                                Err(_) => { vals.clear(); break; }
                            }
                        }
                        if vals.len() == 3 && Self::veq(&vals[0], &vals[1]) && Self::veq(&vals[0], &vals[2]) {
                            return vals.into_iter().next();
                        }
                        if vals.is_empty() {
                            if let Some(b) = ctfe_body(did) {
                                return self.eval_straight_line(st, b, inst);
                            }
                        }
                        return None;
                    }
                }
                // A constant of the crate under analysis whose type mentions the parameters (`impl<S, R> Partial<S, R> { const
                // EMPTY: Self = Partial { scale: None, .. } }`): its straight-line initialiser is interpreted like a promoted.
                if { use rustc_middle::ty::TypeVisitableExt; cty.has_non_region_param() } {
                    if let Some(b) = ctfe_body(did) {
                        return self.eval_straight_line(st, b, inst);
                    }
                    return None;
                }
                if cty.is_bool() && matches!(krate.as_str(), "core" | "alloc" | "std") {
                    use rustc_middle::ty::TypeFoldable;
                    let f32t = tcx.types.f32;
                    let args2 = uv.args.fold_with(&mut ty::BottomUpFolder { tcx, ty_op: |t| if matches!(t.kind(), ty::Param(_)) { f32t } else { t }, lt_op: |l| l, ct_op: |c| c });
                    let uv2 = mir::UnevaluatedConst { def: uv.def, args: args2, promoted: None };
                    if let Ok(val) = mir::Const::Unevaluated(uv2, tcx.types.bool).eval(tcx, self.tenv, rustc_span::DUMMY_SP) {
                        if let Some(s) = val.try_to_scalar_int() {
                            return Some(V::Int(s.to_bits(s.size())));
                        }
                    }
                }
                return None;
            }
        };
        self.eval_straight_line(st, body, inst)
    }

    fn eval_straight_line(&self, st: &mut State<'tcx>, body: &'tcx mir::Body<'tcx>, inst: Instance<'tcx>) -> Option<V<'tcx>> {
        let tcx = self.tcx;
        if body.basic_blocks.len() != 1 || !matches!(body.basic_blocks[mir::START_BLOCK].terminator().kind, TerminatorKind::Return) {
            return None;
        }
        let ncells = st.cells.len();
        let mut locals = vec![];
        for decl in body.local_decls.iter() {
            let lty = inst.try_instantiate_mir_and_normalize_erasing_regions(tcx, self.tenv, EarlyBinder::bind(decl.ty)).ok()?;
            st.cells.push(Cell { ty: lty, v: V::Undef, name: None });
            locals.push(st.cells.len() - 1);
        }
        st.frames.push(Frame { visits: vec![], inst, body, locals: locals.clone(), bb: mir::START_BLOCK, skip: 0, ret_to: None });
        let r: R<V<'tcx>> = (|| {
            for stmt in &body.basic_blocks[mir::START_BLOCK].statements {
                if let StatementKind::Assign(b) = &stmt.kind {
                    let (pl, rv) = &**b;
                    let v = self.eval_rvalue(st, rv)?;
                    let ptr = self.eval_place(st, pl)?;
                    self.write(st, &ptr, v)?;
                }
            }
            Ok(st.cells[locals[0]].v.clone())
        })();
        st.frames.pop();
        match r {
            Ok(v) if !matches!(v, V::Undef) => Some(v),
            _ => {
                st.cells.truncate(ncells);
                None
            }
        }
    }

    fn destructure_const(&self, val: mir::ConstValue, ty: Ty<'tcx>, depth: usize) -> Option<V<'tcx>> {
        if depth > 8 {
            return None;
        }
        match ty.kind() {
            ty::Bool | ty::Char | ty::Int(_) | ty::Uint(_) => {
                let s = val.try_to_scalar_int()?;
                Some(V::Int(s.to_bits(s.size())))
            }
            ty::Float(_) => {
                let s = val.try_to_scalar_int()?;
                let bits = s.to_bits(s.size());
                match s.size().bytes() {
                    4 => Some(V::Sym(cfloat((f32::from_bits(bits as u32) as f64).to_bits(), 32))),
                    8 => Some(V::Sym(cfloat(bits as u64, 64))),
                    _ => None,
                }
            }
            ty::FnPtr(..) => {
                // a function pointer constant (an entry of a table of accessors): the function or capture-free closure it points to
                let mir::ConstValue::Scalar(rustc_middle::mir::interpret::Scalar::Ptr(ptr, _)) = val else { return None };
                let (prov, _off) = ptr.into_raw_parts();
                match self.tcx.global_alloc(prov.alloc_id()) {
                    rustc_middle::mir::interpret::GlobalAlloc::Function { instance } => {
                        let did = instance.def_id();
                        // (a coerced closure is reached through the `FnOnce::call_once` shim taking the closure by value)
                        if let Some(ct) = instance.args.get(0).and_then(|a| a.as_type()).filter(|t| matches!(t.kind(), ty::Closure(..))) {
                            if !self.tcx.is_closure_like(did) {
                                return Some(V::Fn(ct));
                            }
                        }
                        if self.tcx.is_closure_like(did) {
                            Some(V::Fn(Ty::new_closure(self.tcx, did, instance.args)))
                        } else {
                            Some(V::Fn(Ty::new_fn_def(self.tcx, did, instance.args)))
                        }
                    }
                    _ => None,
                }
            }
            ty::Ref(_, inner, _) if inner.is_str() => {
                let bytes = val.try_get_slice_bytes_for_diagnostics(self.tcx)?;
                Some(V::Str(String::from_utf8_lossy(bytes).into_owned()))
            }
            ty::Array(..) | ty::Tuple(_) | ty::Adt(..) => {
                if let ty::Adt(d, _) = ty.kind() {
                    if !(d.is_struct() || d.is_enum()) {
                        return None;
                    }
                }
                let dc = self.tcx.try_destructure_mir_constant_for_user_output(val, ty)?;
                let fs: Option<Vec<V<'tcx>>> = dc.fields.iter().map(|(v, t)| self.destructure_const(*v, *t, depth + 1)).collect();
                let fs = fs?;
                match (ty.kind(), dc.variant) {
                    (ty::Adt(d, _), Some(vi)) if d.is_enum() => Some(V::Enum(vi.as_u32(), fs)),
                    _ => Some(V::Agg(fs)),
                }
            }
            _ => None,
        }
    }

    fn str_slice_const(&self, val: mir::ConstValue, ty: Ty<'tcx>) -> Option<Vec<String>> {
        let ty::Ref(_, inner, _) = ty.kind() else { return None };
        let ty::Slice(elem) = inner.kind() else { return None };
        let ty::Ref(_, e2, _) = elem.kind() else { return None };
        if !e2.is_str() {
            return None;
        }
        let tcx = self.tcx;
        let ps = tcx.data_layout.pointer_size().bytes() as usize;
        let read_usize = |bytes: &[u8]| -> usize {
            let mut x = 0usize;
            for (i, b) in bytes.iter().enumerate() {
                x |= (*b as usize) << (8 * i);
            }
            x
        };
        let mir::ConstValue::Indirect { alloc_id, offset } = val else { return None };
        let a = tcx.global_alloc(alloc_id).unwrap_memory().inner();
        let off = offset.bytes() as usize;
        let prov = a.provenance().get_ptr(rustc_abi::Size::from_bytes(off as u64))?;
        let arr_off = read_usize(a.inspect_with_uninit_and_ptr_outside_interpreter(off..off + ps));
        let len = read_usize(a.inspect_with_uninit_and_ptr_outside_interpreter(off + ps..off + 2 * ps));
        let arr = tcx.global_alloc(prov.alloc_id()).unwrap_memory().inner();
        let mut out = vec![];
        for i in 0..len {
            let o = arr_off + i * 2 * ps;
            let p2 = arr.provenance().get_ptr(rustc_abi::Size::from_bytes(o as u64))?;
            let soff = read_usize(arr.inspect_with_uninit_and_ptr_outside_interpreter(o..o + ps));
            let slen = read_usize(arr.inspect_with_uninit_and_ptr_outside_interpreter(o + ps..o + 2 * ps));
            let sa = tcx.global_alloc(p2.alloc_id()).unwrap_memory().inner();
            let bytes = sa.inspect_with_uninit_and_ptr_outside_interpreter(soff..soff + slen);
            out.push(String::from_utf8_lossy(bytes).into_owned());
        }
        Some(out)
    }

    fn eval_operand(&self, st: &mut State<'tcx>, op: &Operand<'tcx>) -> R<V<'tcx>> {
        match op {
            Operand::Copy(p) | Operand::Move(p) => {
                let q = self.eval_place(st, p)?;
                self.read(st, &q)
            }
            Operand::Constant(c) => self.const_value(st, c),
            Operand::RuntimeChecks(_) => Ok(V::Int(0)),
        }
    }
    pub fn to_term(&self, st: &State<'tcx>, v: &V<'tcx>) -> T {
        match v {
            V::Sym(t) => *t,
            V::Int(i) => cint(&i.to_string()),
            V::Agg(fs) => app("agg", fs.iter().map(|f| self.to_term(st, f)).collect()),
            V::Enum(k, fs) => app(&format!("variant{}", k), fs.iter().map(|f| self.to_term(st, f)).collect()),
            V::Ref(p) => match self.read(st, p) {
                Ok(pv) => self.to_term(st, &pv),
                Err(_) => atom("badref"),
            },
            V::Fn(t) => atom(&format!("fn:{:?}", t)),
            V::Str(s) => cstr(s),
            V::Iter { .. } => atom("slice-iterator"),
            V::Undef => atom("undef"),
        }
    }

    fn int_bits(&self, ty: Ty<'tcx>) -> (u32, bool) {
        let ptr = self.tcx.data_layout.pointer_size().bits() as u32;
        match ty.kind() {
            ty::Bool => (1, false),
            ty::Char => (32, false),
            ty::Uint(u) => (u.bit_width().map(|b| b as u32).unwrap_or(ptr), false),
            ty::Int(i) => (i.bit_width().map(|b| b as u32).unwrap_or(ptr), true),
            _ => (128, false),
        }
    }
    fn trunc(bits: u32, x: u128) -> u128 {
        if bits >= 128 {
            x
        } else {
            x & ((1u128 << bits) - 1)
        }
    }
    fn sext(bits: u32, x: u128) -> i128 {
        if bits >= 128 {
            x as i128
        } else {
            let sh = 128 - bits;
            ((x << sh) as i128) >> sh
        }
    }
    fn fold_float(op: &str, a: (f64, u8), b: (f64, u8)) -> Option<T> {
        let w = a.1.max(b.1);
        if a.1 != b.1 {
            return None;
        }
        let r = if w == 32 {
            let (x, y) = (a.0 as f32, b.0 as f32);
            (match op {
                "add" => x + y,
                "sub" => x - y,
                "mul" => x * y,
                "div" => x / y,
                _ => return None,
            }) as f64
        } else {
            let (x, y) = (a.0, b.0);
            match op {
                "add" => x + y,
                "sub" => x - y,
                "mul" => x * y,
                "div" => x / y,
                _ => return None,
            }
        };
        if !r.is_finite() {
            return None;
        }
        Some(cfloat(r.to_bits(), w))
    }
    /// arithmetic on the abstract scalar: builds a term, folds float literals
    fn arith(&self, op: &str, a: T, b: T) -> T {
        if let (Some(x), Some(y)) = (terms::as_float(a), terms::as_float(b)) {
            if let Some(r) = Self::fold_float(op, x, y) {
                return r;
            }
        }
        app(op, vec![a, b])
    }

    fn binop(&self, st: &State<'tcx>, op: BinOp, a: &V<'tcx>, b: &V<'tcx>, oty: Ty<'tcx>) -> V<'tcx> {
        use BinOp::*;
        if let (V::Int(x), V::Int(y)) = (a, b) {
            let (bits, signed) = self.int_bits(oty);
            let (x, y) = (*x, *y);
            let (sx, sy) = (Self::sext(bits, x), Self::sext(bits, y));
            let bv = |c: bool| V::Int(c as u128);
            let wrap = |r: u128| V::Int(Self::trunc(bits, r));
            let ovf = |r: i128, ru: u128, exact_unsigned_ok: bool| -> V<'tcx> {
                let t = Self::trunc(bits, ru);
                let o = if signed { Self::sext(bits, t) != r } else { !exact_unsigned_ok };
                V::Agg(vec![V::Int(t), V::Int(o as u128)])
            };
            match op {
                Add | AddUnchecked => return wrap(x.wrapping_add(y)),
                Sub | SubUnchecked => return wrap(x.wrapping_sub(y)),
                Mul | MulUnchecked => return wrap(x.wrapping_mul(y)),
                BitAnd => return wrap(x & y),
                BitOr => return wrap(x | y),
                BitXor => return wrap(x ^ y),
                Shl | ShlUnchecked => return wrap(x.wrapping_shl(y as u32)),
                Shr | ShrUnchecked => {
                    return if signed { wrap((sx >> (y as u32 & 127)) as u128) } else { wrap(x >> (y as u32 & 127)) }
                }
                Div if y != 0 => return if signed { wrap(sx.wrapping_div(sy) as u128) } else { wrap(x / y) },
                Rem if y != 0 => return if signed { wrap(sx.wrapping_rem(sy) as u128) } else { wrap(x % y) },
                Cmp => {
                    let o = if signed { sx.cmp(&sy) } else { x.cmp(&y) };
                    return V::Enum(match o { std::cmp::Ordering::Less => 0, std::cmp::Ordering::Equal => 1, std::cmp::Ordering::Greater => 2 }, vec![]);
                }
                Eq => return bv(x == y),
                Ne => return bv(x != y),
                Lt => return bv(if signed { sx < sy } else { x < y }),
                Le => return bv(if signed { sx <= sy } else { x <= y }),
                Gt => return bv(if signed { sx > sy } else { x > y }),
                Ge => return bv(if signed { sx >= sy } else { x >= y }),
                AddWithOverflow => {
                    let ru = x.wrapping_add(y);
                    return ovf(sx.wrapping_add(sy), ru, x.checked_add(y).map(|r| Self::trunc(bits, r) == r).unwrap_or(false));
                }
                SubWithOverflow => return ovf(sx.wrapping_sub(sy), x.wrapping_sub(y), x >= y),
                MulWithOverflow => {
                    let ru = x.wrapping_mul(y);
                    return ovf(sx.wrapping_mul(sy), ru, x.checked_mul(y).map(|r| Self::trunc(bits, r) == r).unwrap_or(false));
                }
                _ => {}
            }
        }
        // boolean flags: `flag & true`, `flag | false` and the absorbing cases (an `all_fit &= ..` accumulator starts at true)
        if oty.is_bool() {
            match (op, a, b) {
                (BitAnd, V::Int(1), x) | (BitAnd, x, V::Int(1)) | (BitOr, V::Int(0), x) | (BitOr, x, V::Int(0)) => return x.clone(),
                (BitAnd, V::Int(0), _) | (BitAnd, _, V::Int(0)) => return V::Int(0),
                (BitOr, V::Int(1), _) | (BitOr, _, V::Int(1)) => return V::Int(1),
                _ => {}
            }
        }
        let (ta, tb) = (self.to_term(st, a), self.to_term(st, b));
        // the size of a type with at least one scalar of a parameter type is not zero (a scalar type has more than one value, so
        // it is not zero-sized): `size_of::<M>() / size_of::<S>()` does not divide by zero
        if let (V::Sym(_), V::Int(0)) = (a, b) {
            if let terms::Term::App(f, x) = terms::get(ta) {
                if f == "size_leaves" && x.len() == 2 && !matches!(terms::get(x[0]), terms::Term::CInt(ref n) if n == "0") {
                    match op {
                        Eq | Le => return V::Int(0),
                        Ne | Gt => return V::Int(1),
                        _ => {}
                    }
                }
            }
        }
        if let (V::Sym(_), V::Sym(_)) = (a, b) {
            if let Some(r) = Self::layout_cmp(op, ta, tb) {
                return V::Int(r as u128);
            }
            // `size_of::<Matrix4<S>>() / size_of::<S>()`
            if matches!(op, Div) {
                if let (terms::Term::App(f, x), terms::Term::App(g, y)) = (terms::get(ta), terms::get(tb)) {
                    if f == "size_leaves" && g == "size_leaves" && x.len() == 2 && y.len() == 2 && x[1] == y[1] {
                        if let (terms::Term::CInt(m), terms::Term::CInt(n)) = (terms::get(x[0]), terms::get(y[0])) {
                            if let (Ok(m), Ok(n)) = (m.parse::<u128>(), n.parse::<u128>()) {
                                if n != 0 && m % n == 0 {
                                    return V::Int(m / n);
                                }
                            }
                        }
                    }
                }
            }
        }
        let name = match op {
            Add | AddUnchecked | AddWithOverflow => "add",
            Sub | SubUnchecked | SubWithOverflow => "sub",
            Mul | MulUnchecked | MulWithOverflow => "mul",
            Div => "div",
            Rem => "rem",
            Eq => "eq",
            Ne => "ne",
            Lt => "lt",
            Le => "le",
            Gt => "gt",
            Ge => "ge",
            BitAnd => "bitand",
            BitOr => "bitor",
            BitXor => "bitxor",
            Shl | ShlUnchecked => "shl",
            Shr | ShrUnchecked => "shr",
            Cmp => "cmp3",
            Offset => "offset",
        };
        let t = if matches!(name, "add" | "sub" | "mul" | "div") { self.arith(name, ta, tb) } else { app(name, vec![ta, tb]) };
        if let AddWithOverflow | SubWithOverflow | MulWithOverflow = op {
            return V::Agg(vec![V::Sym(t), V::Sym(app("overflow", vec![t]))]);
        }
        V::Sym(t)
    }

    fn eval_rvalue(&self, st: &mut State<'tcx>, rv: &Rvalue<'tcx>) -> R<V<'tcx>> {
        match rv {
            Rvalue::Use(op, _) => self.eval_operand(st, op),
            Rvalue::Ref(_, _, pl) | Rvalue::RawPtr(_, pl) => {
                // `&*s` for a string constant s (a `&str` is represented by its text): the same string
                if let Some((ProjectionElem::Deref, rest)) = pl.projection.split_last() {
                    if let Ok(bp) = self.eval_place(st, &Place { local: pl.local, projection: self.tcx.mk_place_elems(rest) }) {
                        match self.read(st, &bp) {
                            Ok(V::Str(sv)) => return Ok(V::Str(sv)),
                            // `&*s` for a symbolic `&str` (the text of an owned String): the same text
                            Ok(V::Sym(t)) if matches!(self.ptr_ty(st, &bp).map(|x| x.kind().clone()), Ok(ty::Ref(_, inner, _)) if inner.is_str()) => return Ok(V::Sym(t)),
                            _ => {}
                        }
                    }
                }
                Ok(V::Ref(self.eval_place(st, pl)?))
            }
            Rvalue::CopyForDeref(pl) => {
                let q = self.eval_place(st, pl)?;
                self.read(st, &q)
            }
            Rvalue::Repeat(op, n) => {
                let v = self.eval_operand(st, op)?;
                let fr = st.frames.last().unwrap();
                let n = self.subst(fr, *n).try_to_target_usize(self.tcx).ok_or("repeat count")?;
                Ok(V::Agg(vec![v; n as usize]))
            }
            Rvalue::BinaryOp(op, ab) => {
                let a = self.eval_operand(st, &ab.0)?;
                let b = self.eval_operand(st, &ab.1)?;
                let fr = st.frames.last().unwrap();
                let ty = self.subst(fr, ab.0.ty(fr.body, self.tcx));
                if let (BinOp::Offset, V::Ref(p), V::Int(k)) = (op, &a, &b) {
                    let kty = self.subst(fr, ab.1.ty(fr.body, self.tcx));
                    let (bits, signed) = self.int_bits(kty);
                    let d = if signed { Self::sext(bits, *k) } else { *k as i128 };
                    return Ok(V::Ref(self.offset_ptr(st, p, d)?));
                }
                if let (V::Ref(p), V::Ref(q)) = (&a, &b) {
                    // pointers into the same object compare by layout position
                    if p.cell == q.cell && p.win.is_none() && q.win.is_none() {
                        if let (Some(x), Some(y)) = (self.ptr_offset(st, p), self.ptr_offset(st, q)) {
                            let r = match op {
                                BinOp::Eq => Some(x == y),
                                BinOp::Ne => Some(x != y),
                                BinOp::Lt => Some(x < y),
                                BinOp::Le => Some(x <= y),
                                BinOp::Gt => Some(x > y),
                                BinOp::Ge => Some(x >= y),
                                _ => None,
                            };
                            if let Some(r) = r {
                                return Ok(V::Int(r as u128));
                            }
                        }
                    }
                    // otherwise the addresses are unknown: an opaque relation between the two pointers (never between the pointees)
                    if matches!(op, BinOp::Eq | BinOp::Ne | BinOp::Lt | BinOp::Le | BinOp::Gt | BinOp::Ge) {
                        let d = |p: &Ptr<'tcx>| atom(&format!("&cell{}{:?}{:?}", p.cell, p.segs.iter().map(|s| s.path.clone()).collect::<Vec<_>>(), p.win));
                        return Ok(V::Sym(app(&format!("ptr_{:?}", op).to_lowercase(), vec![d(p), d(q)])));
                    }
                }
                Ok(self.binop(st, *op, &a, &b, ty))
            }
            Rvalue::UnaryOp(op, a) => {
                let fr = st.frames.last().unwrap();
                let ty = self.subst(fr, a.ty(fr.body, self.tcx));
                let a = self.eval_operand(st, a)?;
                match (op, &a) {
                    (UnOp::Not, V::Int(x)) => {
                        let (bits, _) = self.int_bits(ty);
                        Ok(V::Int(Self::trunc(bits, !*x)))
                    }
                    (UnOp::Neg, V::Int(x)) => {
                        let (bits, _) = self.int_bits(ty);
                        Ok(V::Int(Self::trunc(bits, (!*x).wrapping_add(1))))
                    }
                    (UnOp::Not, _) => Ok(V::Sym(app("not", vec![self.to_term(st, &a)]))),
                    (UnOp::Neg, _) => {
                        let t = self.to_term(st, &a);
                        if let Some((f, w)) = terms::as_float(t) {
                            return Ok(V::Sym(cfloat((-f).to_bits(), w)));
                        }
                        Ok(V::Sym(app("neg", vec![t])))
                    }
                    (UnOp::PtrMetadata, V::Ref(p)) if p.win.is_some() => Ok(V::Int(p.win.unwrap().1 as u128)),
                    (UnOp::PtrMetadata, _) => Ok(V::Sym(app("len", vec![self.to_term(st, &a)]))),
                }
            }
            Rvalue::Aggregate(kind, ops) => {
                let mut fs = vec![];
                for o in ops.iter() {
                    fs.push(self.eval_operand(st, o)?);
                }
                match &**kind {
                    AggregateKind::Adt(did, variant, _, _, active) => {
                        let def = self.tcx.adt_def(*did);
                        if let Some(active) = active {
                            // `U { f: x }`: the canonical field holds x (seen through its own type)
                            let fr = st.frames.last().unwrap();
                            let uty = self.subst(fr, rv.ty(fr.body, self.tcx));
                            let (ci, cty) = self.union_canonical(uty).ok_or("union aggregate")?;
                            let x = fs.into_iter().next().ok_or("union aggregate without a field")?;
                            if active.as_usize() == ci {
                                return Ok(V::Agg(vec![x]));
                            }
                            let ty::Adt(udef, uargs) = uty.kind() else { return Err("union aggregate".into()) };
                            let aty = self.norm(udef.non_enum_variant().fields[*active].ty(self.tcx, uargs));
                            let (na, nc) = (self.leaf_count(aty), self.leaf_count(cty));
                            if na == 0 {
                                // `MaybeUninit { uninit: () }`
                                return Ok(V::Agg(vec![V::Undef]));
                            }
                            if na == nc {
                                return Ok(V::Agg(vec![self.review(&x, aty, cty)?]));
                            }
                            return Err("union aggregate through a smaller field".into());
                        }
                        if def.is_enum() {
                            Ok(V::Enum(variant.as_u32(), fs))
                        } else {
                            Ok(V::Agg(fs))
                        }
                    }
                    AggregateKind::RawPtr(pointee, _) => {
                        // `ptr::from_raw_parts(data, metadata)`
                        let fr = st.frames.last().unwrap();
                        let pointee = self.subst(fr, *pointee);
                        match (fs.first(), fs.get(1), pointee.kind()) {
                            (Some(V::Ref(p)), Some(V::Int(len)), ty::Slice(elem)) => {
                                // data pointer + length: the window of `len` elements starting at the element p designates
                                let p = if self.ptr_ty(st, p)? == *elem { p.clone() } else { self.cast_ptr(st, p.clone(), *elem)? };
                                let mut q = self.as_elem_ptr(st, &p)?;
                                let Some(PE::F(i)) = q.segs.last_mut().unwrap().path.pop() else { return Err("raw slice pointer".into()) };
                                let n = match self.ptr_ty(st, &q)?.kind() {
                                    ty::Array(_, n) => n.try_to_target_usize(self.tcx).ok_or("raw slice pointer: array length")? as usize,
                                    _ => return Err("raw slice pointer outside an array".into()),
                                };
                                if i + *len as usize > n {
                                    return Err("PANIC:raw slice longer than the object".into());
                                }
                                q.win = Some((i, *len as usize));
                                Ok(V::Ref(q))
                            }
                            (Some(V::Ref(p)), Some(V::Agg(m)), _) if m.is_empty() => Ok(V::Ref(self.cast_ptr(st, p.clone(), pointee)?)),
                            _ => Err("raw pointer aggregate".into()),
                        }
                    }
                    _ => Ok(V::Agg(fs)),
                }
            }
            Rvalue::Cast(kind, op, ty) => {
                let fr = st.frames.last().unwrap();
                let sty = self.subst(fr, op.ty(fr.body, self.tcx));
                let ty = self.subst(fr, *ty);
                let v = self.eval_operand(st, op)?;
                match kind {
                    CastKind::Transmute | CastKind::PtrToPtr => match (v, ty.kind()) {
                        (V::Ref(p), ty::Ref(_, inner, _)) | (V::Ref(p), ty::RawPtr(inner, _)) => Ok(V::Ref(self.cast_ptr(st, p, *inner)?)),
                        // `NonZero::new(n)`: an integer seen as Option<NonZero<_>> (0 is None), and a one-leaf wrapper seen as its integer
                        (V::Int(k), ty::Adt(d, a)) if d.is_enum() && tcx_is_option(self.tcx, d.did()) && self.leaf_count(a.type_at(0)) == 1 => {
                            if k == 0 {
                                Ok(V::Enum(0, vec![]))
                            } else {
                                let inner = a.type_at(0);
                                let mut it = vec![V::Int(k)].into_iter();
                                Ok(V::Enum(1, vec![self.unflatten(&mut it, inner)?]))
                            }
                        }
                        // a pointer seen as a one-field wrapper of a pointer (`NonNull<T>`), and back
                        (V::Ref(p), ty::Adt(..)) if self.field_tys(ty).is_some() && self.leaf_count(ty) == 1 => {
                            let mut leaf = ty;
                            while let Some(f) = self.field_tys(leaf) {
                                leaf = *f.iter().find(|t| self.leaf_count(**t) == 1).ok_or("wrapper without a leaf")?;
                            }
                            if let ty::Pat(base, _) = leaf.kind() {
                                leaf = *base; // `*const T is !null`
                            }
                            let p = match leaf.kind() {
                                ty::RawPtr(inner, _) | ty::Ref(_, inner, _) => self.cast_ptr(st, p, *inner)?,
                                _ => return Err(format!("transmute of a pointer to {:?}", ty)),
                            };
                            let mut it = vec![V::Ref(p)].into_iter();
                            self.unflatten(&mut it, ty)
                        }
                        (v @ V::Agg(_), ty::RawPtr(inner, _) | ty::Ref(_, inner, _)) if self.leaf_count(sty) == 1 => {
                            let mut out = vec![];
                            self.flatten(&v, sty, &mut out);
                            match out.into_iter().next() {
                                Some(V::Ref(p)) => Ok(V::Ref(self.cast_ptr(st, p, *inner)?)),
                                other => Err(format!("transmute of {:?} to a pointer", other)),
                            }
                        }
                        (V::Int(k), _) if self.field_tys(ty).is_some() && self.leaf_count(ty) == 1 => {
                            let mut it = vec![V::Int(k)].into_iter();
                            self.unflatten(&mut it, ty)
                        }
                        (v @ V::Agg(_), ty::Int(_) | ty::Uint(_)) if self.leaf_count(sty) == 1 => {
                            let mut out = vec![];
                            self.flatten(&v, sty, &mut out);
                            out.into_iter().next().ok_or_else(|| "empty wrapper".to_string())
                        }
                        (V::Sym(t), _) => Ok(V::Sym(app("transmute", vec![t, cstr(&format!("{:?}->{:?}", sty, ty))]))),
                        // by-value reinterpretation between aggregates with the same leaves
                        (v @ (V::Agg(_) | V::Undef), _) if self.field_tys(sty).is_some() && self.field_tys(ty).is_some() => self.review(&v, sty, ty),
                        (v, _) => Err(format!("transmute of {:?} to {:?}", v, ty)),
                    },
                    CastKind::IntToInt => match v {
                        V::Int(x) => {
                            let (sb, ssigned) = self.int_bits(sty);
                            let (db, _) = self.int_bits(ty);
                            let wide = if ssigned { Self::sext(sb, x) as u128 } else { x };
                            Ok(V::Int(Self::trunc(db, wide)))
                        }
                        other => Ok(V::Sym(app("int_cast", vec![self.to_term(st, &other), cstr(&format!("{:?}->{:?}", sty, ty))]))),
                    },
                    CastKind::IntToFloat => match v {
                        V::Int(x) => {
                            let (sb, ssigned) = self.int_bits(sty);
                            let f = if ssigned { Self::sext(sb, x) as f64 } else { x as f64 };
                            let w = if matches!(ty.kind(), ty::Float(ty::FloatTy::F32)) { 32 } else { 64 };
                            let f = if w == 32 { (f as f32) as f64 } else { f };
                            Ok(V::Sym(cfloat(f.to_bits(), w)))
                        }
                        other => Ok(V::Sym(app("int_to_float", vec![self.to_term(st, &other), cstr(&format!("{:?}->{:?}", sty, ty))]))),
                    },
                    CastKind::FloatToFloat => {
                        let t = self.to_term(st, &v);
                        let w = if matches!(ty.kind(), ty::Float(ty::FloatTy::F32)) { 32 } else { 64 };
                        match terms::as_float(t) {
                            Some((f, _)) => Ok(V::Sym(cfloat((if w == 32 { (f as f32) as f64 } else { f }).to_bits(), w))),
                            None => Ok(V::Sym(app("float_cast", vec![t, cstr(&format!("{:?}->{:?}", sty, ty))]))),
                        }
                    }
                    CastKind::FloatToInt => Ok(V::Sym(app("float_to_int", vec![self.to_term(st, &v), cstr(&format!("{:?}->{:?}", sty, ty))]))),
                    CastKind::PointerCoercion(..) => {
                        // a capture-free closure coerced to a `fn` pointer (`const GET: [fn(&P) -> S; 3] = [|p| p.x, ..]`): the
                        // pointer value is the closure itself
                        if matches!(sty.kind(), ty::Closure(..)) && matches!(ty.kind(), ty::FnPtr(..)) {
                            return Ok(V::Fn(sty));
                        }
                        // &[T; N] -> &[T]: remember the length as a window over the array
                        if let (V::Ref(p), ty::Ref(_, inner, _) | ty::RawPtr(inner, _)) = (&v, ty.kind()) {
                            if matches!(inner.kind(), ty::Slice(_)) && p.win.is_none() {
                                if let Ok(pt) = self.ptr_ty(st, p) {
                                    if let Some(n) = self.field_tys(pt).map(|f| f.len()).filter(|_| matches!(pt.kind(), ty::Array(..))) {
                                        let mut q = p.clone();
                                        q.win = Some((0, n));
                                        return Ok(V::Ref(q));
                                    }
                                }
                            }
                        }
                        Ok(v)
                    }
                    CastKind::Subtype => Ok(v),
                    other => Ok(V::Sym(app(&format!("cast<{:?}>", other), vec![self.to_term(st, &v)]))),
                }
            }
            Rvalue::Discriminant(pl) => {
                let p = self.eval_place(st, pl)?;
                let v = self.read(st, &p)?;
                let fr = st.frames.last().unwrap();
                let ety = self.subst(fr, pl.ty(fr.body, self.tcx).ty);
                match v {
                    V::Enum(k, _) => {
                        let d = ety.discriminant_for_variant(self.tcx, VariantIdx::from_u32(k)).map(|d| d.val).unwrap_or(k as u128);
                        Ok(V::Int(d))
                    }
                    V::Sym(t) => {
                        // an enum with exactly one inhabited variant (`Result<T, Infallible>`): its discriminant is that variant's
                        if let ty::Adt(def, args) = ety.kind() {
                            if def.is_enum() {
                                let inhabited: Vec<VariantIdx> = def
                                    .variants()
                                    .iter_enumerated()
                                    .filter(|(_, vd)| !vd.fields.iter().any(|f| f.ty(self.tcx, args).is_privately_uninhabited(self.tcx, self.tenv)))
                                    .map(|(vi, _)| vi)
                                    .collect();
                                if inhabited.len() == 1 && def.variants().len() > 1 {
                                    let d = ety.discriminant_for_variant(self.tcx, inhabited[0]).map(|d| d.val).unwrap_or(inhabited[0].as_u32() as u128);
                                    return Ok(V::Int(d));
                                }
                            }
                        }
                        // already settled on this path by an earlier `match`
                        let d = app("discr", vec![t]);
                        if let Some(&(_, k)) = st.decided.iter().find(|(x, _)| *x == d) {
                            return Ok(V::Int(k));
                        }
                        // a field-less enum with few variants: remember which values the discriminant can take (`key as u8`)
                        if let ty::Adt(def, _) = ety.kind() {
                            if def.is_enum() && def.variants().len() <= 8 && def.variants().iter().all(|v| v.fields.is_empty()) {
                                let vals: Vec<u128> = def.variants().indices().filter_map(|vi| ety.discriminant_for_variant(self.tcx, vi).map(|x| x.val)).collect();
                                if vals.len() == def.variants().len() {
                                    self.stats.borrow_mut().discr_values.insert(d, vals);
                                }
                            }
                        }
                        Ok(V::Sym(d))
                    }
                    // optimised library MIR reads the discriminant of a dead local only to `assume` it; an unknown
                    // atom keeps any real use visible (it would fork on an opaque condition)
                    V::Undef => Ok(V::Sym(self.fresh("undef_discr"))),
                    other => Err(format!("discriminant of {:?}", other)),
                }
            }
            other => Err(format!("rvalue {:?}", other)),
        }
    }

    /// `t` as a statement about a discriminant: (X, c, pol) meaning t <=> (X == c) when pol, t <=> (X != c) otherwise
    fn discr_fact(&self, t: T) -> Option<(T, u128, bool)> {
        match terms::get(t) {
            terms::Term::App(op, a) if op == "not" && a.len() == 1 => self.discr_fact(a[0]).map(|(x, c, p)| (x, c, !p)),
            terms::Term::App(op, a) if (op == "eq" || op == "ne") && a.len() == 2 => {
                let pol = op == "eq";
                for (x, c) in [(a[0], a[1]), (a[1], a[0])] {
                    if let (terms::Term::App(xo, _), terms::Term::CInt(ci)) = (terms::get(x), terms::get(c)) {
                        if xo == "discr" {
                            if let Ok(v) = ci.parse::<u128>() {
                                return Some((x, v, pol));
                            }
                        }
                    }
                }
                None
            }
            _ => None,
        }
    }

    /// structural equality of two abstract values
    fn veq(a: &V<'tcx>, b: &V<'tcx>) -> bool {
        match (a, b) {
            (V::Sym(x), V::Sym(y)) => x == y,
            (V::Int(x), V::Int(y)) => x == y,
            (V::Agg(x), V::Agg(y)) => x.len() == y.len() && x.iter().zip(y).all(|(p, q)| Self::veq(p, q)),
            (V::Enum(k, x), V::Enum(l, y)) => k == l && x.len() == y.len() && x.iter().zip(y).all(|(p, q)| Self::veq(p, q)),
            (V::Ref(p), V::Ref(q)) => Self::peq(p, q),
            (V::Fn(x), V::Fn(y)) => x == y,
            (V::Str(x), V::Str(y)) => x == y,
            (V::Iter { ptr: p, front: f, back: b_, by_value: v }, V::Iter { ptr: q, front: g, back: c, by_value: w }) => Self::peq(p, q) && f == g && b_ == c && v == w,
            (V::Undef, V::Undef) => true,
            _ => false,
        }
    }
    fn peq(p: &Ptr<'tcx>, q: &Ptr<'tcx>) -> bool {
        p.cell == q.cell && p.win == q.win && p.segs.len() == q.segs.len() && p.segs.iter().zip(&q.segs).all(|(a, b)| a.view == b.view && a.path == b.path)
    }
    /// `if c { a } else { b }` as one value, when the two have the same shape and differ only in scalar leaves
    fn merge_v(&self, c: T, a: &V<'tcx>, b: &V<'tcx>, limit: usize) -> Option<V<'tcx>> {
        if Self::veq(a, b) {
            return Some(a.clone());
        }
        if a.as_ptr_cell().map(|x| x >= limit).unwrap_or(false) || b.as_ptr_cell().map(|x| x >= limit).unwrap_or(false) {
            return None;
        }
        match (a, b) {
            (V::Sym(_) | V::Int(_), V::Sym(_) | V::Int(_)) => {
                let st = State { cells: vec![], frames: vec![], trace: vec![], decided: vec![], symcells: vec![], excluded: vec![], pending: vec![] };
                Some(V::Sym(app("ite", vec![c, self.to_term(&st, a), self.to_term(&st, b)])))
            }
            (V::Agg(x), V::Agg(y)) if x.len() == y.len() => {
                let mut out = vec![];
                for (p, q) in x.iter().zip(y) {
                    out.push(self.merge_v(c, p, q, limit)?);
                }
                Some(V::Agg(out))
            }
            (V::Enum(k, x), V::Enum(l, y)) if k == l && x.len() == y.len() => {
                let mut out = vec![];
                for (p, q) in x.iter().zip(y) {
                    out.push(self.merge_v(c, p, q, limit)?);
                }
                Some(V::Enum(*k, out))
            }
            _ => None,
        }
    }
    /// Is `t` an exact (in)equality test of two scalars (the guard of a fast path), possibly negated?
    fn is_eq_test(&self, t: T) -> bool {
        match terms::get(t) {
            terms::Term::App(op, a) if op == "not" && a.len() == 1 => self.is_eq_test(a[0]),
            terms::Term::App(op, a) if (op == "eq" || op == "ne") && a.len() == 2 => true,
            _ => false,
        }
    }
    /// If-conversion of a pure diamond inside a callee: both arms of an equality-guarded branch run to the callee's return
    /// without forking, panicking or having effects, and what they return / leave in memory differs only in scalar leaves.
    /// The caller then continues ONCE with `ite(c, then, else)` leaves (the rule layer resolves an ite whose arms agree under
    /// its condition - a correct fast path - and keeps a wrong one visible).  Returns true when the merge was done.
    fn try_merge(&self, st: &mut State<'tcx>, t: T, bb_then: BasicBlock, bb_else: BasicBlock) -> bool {
        // only below the function under test (harness wrapper = frame 1, function under test = frame 2): its own special
        // cases stay visible as paths, the fast paths of the helpers it calls are folded into values
        if st.frames.len() < 3 || !self.is_eq_test(t) {
            return false;
        }
        let top = st.frames.last().unwrap().clone();
        let Some((dest, Some(target))) = top.ret_to.clone() else { return false };
        // predicates (`a == b && c == d`) keep their short-circuit structure: the comparator rules read it
        if self.subst(&top, top.body.local_decls[mir::RETURN_PLACE].ty).is_bool() {
            return false;
        }
        let ncells = st.cells.len();
        let saved = { let s = self.stats.borrow(); (s.leaves, s.steps) };
        let run_arm = |bb: BasicBlock, val: u128| -> Option<(V<'tcx>, State<'tcx>)> {
            let mut sub = st.clone();
            sub.frames.clear();
            let mut f = top.clone();
            f.ret_to = None;
            f.bb = bb;
            f.skip = 0;
            sub.frames.push(f);
            sub.decided.push((t, val));
            if let Some((x, c, pol)) = self.discr_fact(t) {
                if pol == (val == 1) { sub.decided.push((x, c)); } else { sub.excluded.push((x, c)); }
            }
            match self.run_from(&mut sub, 0) {
                Outcome::Ret(v, _, s2) => Some((v, s2)),
                _ => None,
            }
        };
        let a = run_arm(bb_then, 1);
        let b = if a.is_some() { run_arm(bb_else, 0) } else { None };
        let ok = (|| -> Option<(V<'tcx>, Vec<Cell<'tcx>>)> {
            let (v1, s1) = a.as_ref()?;
            let (v2, s2) = b.as_ref()?;
            if s1.trace.len() != st.trace.len() || s2.trace.len() != st.trace.len() {
                return None;
            }
            let rv = self.merge_v(t, v1, v2, ncells)?;
            let mut cells = Vec::with_capacity(ncells);
            for i in 0..ncells {
                // the callee's own locals are dead once it has returned
                let m = if top.locals.contains(&i) { st.cells[i].v.clone() } else { self.merge_v(t, &s1.cells[i].v, &s2.cells[i].v, ncells)? };
                cells.push(Cell { ty: st.cells[i].ty, v: m, name: st.cells[i].name.clone() });
            }
            Some((rv, cells))
        })();
        match ok {
            Some((rv, cells)) => {
                {
                    let mut s = self.stats.borrow_mut();
                    s.leaves = saved.0;
                }
                st.cells = cells;
                st.frames.pop();
                if self.write(st, &dest, rv).is_err() {
                    return false;
                }
                self.goto(st, target);
                push_uniq(&mut self.stats.borrow_mut().models, "mirsum::if-conversion".to_string());
                true
            }
            None => {
                let mut s = self.stats.borrow_mut();
                s.leaves = saved.0;
                let _ = saved.1;
                false
            }
        }
    }

    fn bool_term(&self, t: T) -> T {
        t
    }

    fn goto(&self, st: &mut State<'tcx>, bb: BasicBlock) {
        let f = st.frames.last_mut().unwrap();
        f.bb = bb;
        f.skip = 0;
    }
    fn span_str(&self, sp: Span) -> String {
        format!("{:?}", sp)
    }

    /// Run until the outermost frame of `st` returns.
    pub fn run(&self, mut st: State<'tcx>) -> Outcome<'tcx> {
        let base = st.frames.len();
        self.run_from(&mut st, base)
    }
    fn top(&self, why: String, sp: Span) -> Outcome<'tcx> {
        self.stats.borrow_mut().leaves += 1;
        if let Some(rest) = why.strip_prefix("PANIC:") {
            return Outcome::Panic(rest.to_string(), self.span_str(sp));
        }
        Outcome::Top(format!("{} @ {}", why, self.span_str(sp)))
    }
    fn run_from(&self, st0: &mut State<'tcx>, base: usize) -> Outcome<'tcx> {
        rustc_data_structures::stack::ensure_sufficient_stack(|| self.run_from_inner(st0, base))
    }

    fn run_from_inner(&self, st0: &mut State<'tcx>, base: usize) -> Outcome<'tcx> {
        let mut st = std::mem::replace(st0, State { cells: vec![], frames: vec![], trace: vec![], decided: vec![], symcells: vec![], excluded: vec![], pending: vec![] });
        loop {
            {
                let mut s = self.stats.borrow_mut();
                s.steps += 1;
                if s.steps > STEP_CAP {
                    return Outcome::Top("step cap".into());
                }
                if s.leaves > LEAF_CAP {
                    return Outcome::Top("leaf cap".into());
                }
            }
            if let Some(p) = st.pending.last() {
                if p.depth == st.frames.len() {
                    match self.step_pending(&mut st, base) {
                        Ok(None) => continue,
                        Ok(Some(o)) => return o,
                        Err(e) => return self.top(e, rustc_span::DUMMY_SP),
                    }
                }
            }
            {
                // an explicit bound cuts every loop; by default only loops that FORK on a symbolic condition are cut
                // (at the fork, below): a loop over concrete indices runs as long as it runs
                let bound = self.loop_bound.unwrap_or(CONCRETE_LOOP_CAP);
                let f = st.frames.last_mut().unwrap();
                if f.visits.is_empty() {
                    f.visits = vec![0; f.body.basic_blocks.len()];
                }
                let i = f.bb.as_usize();
                if f.skip == 0 {
                    f.visits[i] = f.visits[i].saturating_add(1);
                }
                if f.visits[i] as usize > bound {
                    self.stats.borrow_mut().leaves += 1;
                    return Outcome::Cut(format!("loop bound {} exceeded", bound));
                }
            }
            let fr = st.frames.last().unwrap().clone();
            let data = &fr.body.basic_blocks[fr.bb];
            for (si, stmt) in data.statements.iter().enumerate() {
                if si < fr.skip {
                    continue;
                }
                terms::CUR_SPAN.with(|s| s.set(Some(stmt.source_info.span)));
                match &stmt.kind {
                    StatementKind::Assign(b) => {
                        let (pl, rv) = &**b;
                        // `flag as usize` of an undecided flag (an index into a two-entry table of results): the two values are
                        // two paths, exactly as if the code had branched on the flag
                        if let Rvalue::Cast(CastKind::IntToInt, op, cty) = rv {
                            // `key as u8` for a field-less enum whose variant is undecided: one path per variant
                            if let Ok(V::Sym(t)) = self.eval_operand(&mut st, op) {
                                let vals = self.stats.borrow().discr_values.get(&t).cloned();
                                if let Some(vals) = vals {
                                    let sty = self.subst(&fr, op.ty(fr.body, self.tcx));
                                    let dty = self.subst(&fr, *cty);
                                    let p = match self.eval_place(&mut st, pl) {
                                        Ok(p) => p,
                                        Err(e) => return self.top(e, stmt.source_info.span),
                                    };
                                    let (sb, ssigned) = self.int_bits(sty);
                                    let (db, _) = self.int_bits(dty);
                                    let mut outs = vec![];
                                    for val in vals {
                                        if st.excluded.iter().any(|(d, v)| *d == t && *v == val) {
                                            continue;
                                        }
                                        let mut s1 = st.clone();
                                        s1.decided.push((t, val));
                                        let wide = if ssigned { Self::sext(sb, val) as u128 } else { val };
                                        if let Err(e) = self.write(&mut s1, &p, V::Int(Self::trunc(db, wide))) {
                                            return self.top(e, stmt.source_info.span);
                                        }
                                        s1.frames.last_mut().unwrap().skip = si + 1;
                                        outs.push((val, self.run_from(&mut s1, base)));
                                    }
                                    return Outcome::Switch(t, outs, None);
                                }
                            }
                            if op.ty(fr.body, self.tcx).is_bool() {
                                if let Ok(V::Sym(t)) = self.eval_operand(&mut st, op) {
                                    let known = st.decided.iter().find(|(d, _)| *d == t).map(|(_, v)| *v);
                                    let p = match self.eval_place(&mut st, pl) {
                                        Ok(p) => p,
                                        Err(e) => return self.top(e, stmt.source_info.span),
                                    };
                                    if let Some(v) = known {
                                        if let Err(e) = self.write(&mut st, &p, V::Int(v)) {
                                            return self.top(e, stmt.source_info.span);
                                        }
                                        continue;
                                    }
                                    let mut outs = vec![];
                                    for val in [1u128, 0u128] {
                                        let mut s1 = st.clone();
                                        s1.decided.push((t, val));
                                        if let Some((x, c, pol)) = self.discr_fact(t) {
                                            if pol == (val == 1) { s1.decided.push((x, c)); } else { s1.excluded.push((x, c)); }
                                        }
                                        if let Err(e) = self.write(&mut s1, &p, V::Int(val)) {
                                            return self.top(e, stmt.source_info.span);
                                        }
                                        s1.frames.last_mut().unwrap().skip = si + 1;
                                        outs.push(self.run_from(&mut s1, base));
                                    }
                                    let o_else = outs.pop().unwrap();
                                    let o_then = outs.pop().unwrap();
                                    return Outcome::Ite(self.bool_term(t), Box::new(o_then), Box::new(o_else));
                                }
                            }
                        }
                        let v = match self.eval_rvalue(&mut st, rv) {
                            Ok(v) => v,
                            Err(e) => return self.top(e, stmt.source_info.span),
                        };
                        let p = match self.eval_place(&mut st, pl) {
                            Ok(p) => p,
                            Err(e) => return self.top(e, stmt.source_info.span),
                        };
                        if let Err(e) = self.write(&mut st, &p, v) {
                            return self.top(e, stmt.source_info.span);
                        }
                    }
                    StatementKind::SetDiscriminant { .. } => return self.top("SetDiscriminant".into(), stmt.source_info.span),
                    StatementKind::Intrinsic(i) => match &**i {
                        mir::NonDivergingIntrinsic::Assume(_) => {}
                        mir::NonDivergingIntrinsic::CopyNonOverlapping(c) => {
                            let r: R<()> = (|| {
                                let cnt = self.eval_operand(&mut st, &c.count)?;
                                let V::Int(n) = cnt else { return Err("copy_nonoverlapping with a symbolic count".to_string()) };
                                let (src, dst) = (self.eval_operand(&mut st, &c.src)?, self.eval_operand(&mut st, &c.dst)?);
                                match (src, dst) {
                                    (V::Ref(a), V::Ref(b)) => self.copy_elems(&mut st, &a, &b, n as usize),
                                    _ => Err("copy_nonoverlapping on non-pointers".to_string()),
                                }
                            })();
                            if let Err(e) = r {
                                return self.top(e, stmt.source_info.span);
                            }
                        }
                        _ => return self.top("intrinsic statement".into(), stmt.source_info.span),
                    },
                    _ => {}
                }
            }
            let term = data.terminator();
            let tsp = term.source_info.span;
            terms::CUR_SPAN.with(|s| s.set(Some(tsp)));
            match &term.kind {
                TerminatorKind::Goto { target } => self.goto(&mut st, *target),
                TerminatorKind::Drop { target, .. } => self.goto(&mut st, *target),
                TerminatorKind::FalseEdge { real_target, .. } => self.goto(&mut st, *real_target),
                TerminatorKind::FalseUnwind { real_target, .. } => self.goto(&mut st, *real_target),
                TerminatorKind::Unreachable => return self.top("unreachable executed".into(), tsp),
                TerminatorKind::Return => {
                    let rp = ptr0(fr.locals[0]);
                    let rv = match self.read(&st, &rp) {
                        Ok(v) => v,
                        Err(e) => return self.top(e, tsp),
                    };
                    st.frames.pop();
                    match fr.ret_to {
                        None => {
                            debug_assert!(st.frames.len() + 1 == base || base == 0 || true);
                            self.stats.borrow_mut().leaves += 1;
                            let rty = self.subst(&fr, fr.body.local_decls[mir::RETURN_PLACE].ty);
                            return Outcome::Ret(rv, rty, st);
                        }
                        Some((dest, target)) => {
                            if let Err(e) = self.write(&mut st, &dest, rv) {
                                return self.top(e, tsp);
                            }
                            match target {
                                Some(t) => self.goto(&mut st, t),
                                None => return self.top("return into diverging call".into(), tsp),
                            }
                        }
                    }
                }
                TerminatorKind::Assert { cond, expected, target, msg, .. } => {
                    let c = match self.eval_operand(&mut st, cond) {
                        Ok(v) => v,
                        Err(e) => return self.top(e, tsp),
                    };
                    let kind = match &**msg {
                        AssertKind::BoundsCheck { .. } => "BoundsCheck".to_string(),
                        AssertKind::Overflow(op, ..) => format!("Overflow({:?})", op),
                        AssertKind::OverflowNeg(_) => "OverflowNeg".to_string(),
                        AssertKind::DivisionByZero(_) => "DivisionByZero".to_string(),
                        AssertKind::RemainderByZero(_) => "RemainderByZero".to_string(),
                        _ => "Assert".to_string(),
                    };
                    match c {
                        V::Int(x) => {
                            if (x != 0) == *expected {
                                self.goto(&mut st, *target);
                            } else {
                                self.stats.borrow_mut().leaves += 1;
                                return Outcome::Panic(kind, self.span_str(tsp));
                            }
                        }
                        other => {
                            let t = self.to_term(&st, &other);
                            if let Some(&(_, v)) = st.decided.iter().find(|(d, _)| *d == t) {
                                if (v != 0) == *expected {
                                    self.goto(&mut st, *target);
                                    continue;
                                } else {
                                    self.stats.borrow_mut().leaves += 1;
                                    return Outcome::Panic(kind, self.span_str(tsp));
                                }
                            }
                            let mut ok = st.clone();
                            ok.decided.push((t, *expected as u128));
                            self.goto(&mut ok, *target);
                            let okb = self.run_from(&mut ok, base);
                            self.stats.borrow_mut().leaves += 1;
                            let bad = Outcome::Panic(kind, self.span_str(tsp));
                            return if *expected { Outcome::Ite(t, Box::new(okb), Box::new(bad)) } else { Outcome::Ite(t, Box::new(bad), Box::new(okb)) };
                        }
                    }
                }
                TerminatorKind::SwitchInt { discr, targets } => {
                    let d = match self.eval_operand(&mut st, discr) {
                        Ok(v) => v,
                        Err(e) => return self.top(e, tsp),
                    };
                    match d {
                        V::Int(x) => self.goto(&mut st, targets.target_for_value(x)),
                        other => {
                            let t = self.to_term(&st, &other);
                            if let Some(&(_, v)) = st.decided.iter().find(|(d, _)| *d == t) {
                                self.goto(&mut st, targets.target_for_value(v));
                                continue;
                            }
                            if self.loop_bound.is_none() && st.frames.iter().any(|f| f.visits.get(f.bb.as_usize()).map(|v| *v as usize > DEFAULT_LOOP_BOUND).unwrap_or(false)) {
                                self.stats.borrow_mut().leaves += 1;
                                return Outcome::Cut(format!("loop bound {} exceeded", DEFAULT_LOOP_BOUND));
                            }
                            let dty = self.subst(&fr, discr.ty(fr.body, self.tcx));
                            // values already excluded on this path (an earlier `otherwise` of the same term)
                            let excl: Vec<u128> = st.excluded.iter().filter(|(d, _)| *d == t).map(|(_, v)| *v).collect();
                            let arms: Vec<(u128, BasicBlock)> = targets.iter().filter(|(v, _)| !excl.contains(v)).collect();
                            let ow = targets.otherwise();
                            if arms.is_empty() {
                                self.goto(&mut st, ow);
                                continue;
                            }
                            {
                                let owd0 = &fr.body.basic_blocks[ow];
                                let unreach0 = matches!(owd0.terminator().kind, TerminatorKind::Unreachable) && owd0.statements.is_empty();
                                if unreach0 && arms.len() == 1 && !excl.is_empty() {
                                    st.decided.push((t, arms[0].0));
                                    self.goto(&mut st, arms[0].1);
                                    continue;
                                }
                            }
                            let owd = &fr.body.basic_blocks[ow];
                            let ow_unreach = matches!(owd.terminator().kind, TerminatorKind::Unreachable) && owd.statements.is_empty();
                            if dty.is_bool() && arms.len() == 1 && arms[0].0 == 0 {
                                // a test of a discriminant already settled on this path (`is_none()` before `unwrap()`)
                                let fact = self.discr_fact(t);
                                if let Some((x, c, pol)) = fact {
                                    let known = st.decided.iter().find(|(d, _)| *d == x).map(|(_, v)| *v == c).or_else(|| if st.excluded.iter().any(|(d, v)| *d == x && *v == c) { Some(false) } else { None });
                                    if let Some(is_eq) = known {
                                        let truth = is_eq == pol;
                                        self.goto(&mut st, if truth { ow } else { arms[0].1 });
                                        continue;
                                    }
                                }
                                if self.try_merge(&mut st, t, ow, arms[0].1) {
                                    continue;
                                }
                                let mut s_then = st.clone();
                                if let Some((x, c, pol)) = fact {
                                    if pol {
                                        s_then.decided.push((x, c));
                                        st.excluded.push((x, c));
                                    } else {
                                        s_then.excluded.push((x, c));
                                        st.decided.push((x, c));
                                    }
                                }
                                s_then.decided.push((t, 1));
                                self.goto(&mut s_then, ow);
                                let o_then = self.run_from(&mut s_then, base);
                                st.decided.push((t, 0));
                                self.goto(&mut st, arms[0].1);
                                let o_else = self.run_from(&mut st, base);
                                return Outcome::Ite(self.bool_term(t), Box::new(o_then), Box::new(o_else));
                            }
                            let mut outs = vec![];
                            for (val, bb) in arms {
                                let mut s1 = st.clone();
                                s1.decided.push((t, val));
                                self.goto(&mut s1, bb);
                                outs.push((val, self.run_from(&mut s1, base)));
                            }
                            let other = if ow_unreach {
                                None
                            } else {
                                for (v, _) in targets.iter() {
                                    st.excluded.push((t, v));
                                }
                                self.goto(&mut st, ow);
                                Some(Box::new(self.run_from(&mut st, base)))
                            };
                            return Outcome::Switch(t, outs, other);
                        }
                    }
                }
                TerminatorKind::Call { func, args, destination, target, .. } => {
                    let mut argv = vec![];
                    let mut argtys = vec![];
                    for a in args.iter() {
                        match self.eval_operand(&mut st, &a.node) {
                            Ok(v) => argv.push(v),
                            Err(e) => return self.top(e, tsp),
                        }
                        argtys.push(self.subst(&fr, a.node.ty(fr.body, self.tcx)));
                    }
                    // a callee whose static type is a function item needs no value (`(*f)(..)` with `f: &fn-item`)
                    let static_fty = self.subst(&fr, func.ty(fr.body, self.tcx));
                    let fv = if matches!(static_fty.kind(), ty::FnDef(..)) {
                        V::Fn(static_fty)
                    } else {
                        match self.eval_operand(&mut st, func) {
                            Ok(v) => v,
                            Err(e) => return self.top(e, tsp),
                        }
                    };
                    let fty = match fv {
                        V::Fn(t) => t,
                        other => return self.top(format!("indirect call through {:?}", other), tsp),
                    };
                    let (cdid, cargs) = match fty.kind() {
                        ty::FnDef(d, a) => (*d, *a),
                        ty::Closure(d, a) => {
                            // a call through a `fn` pointer that is a coerced capture-free closure: the closure body with an empty
                            // environment and the arguments as its rust-call tuple
                            let tup = Ty::new_tup(self.tcx, &argtys);
                            let env = V::Agg(vec![]);
                            argv = vec![env, V::Agg(argv)];
                            argtys = vec![fty, tup];
                            (*d, *a)
                        }
                        _ => return self.top("call of non-FnDef".into(), tsp),
                    };
                    let dest = match self.eval_place(&mut st, destination) {
                        Ok(p) => p,
                        Err(e) => return self.top(e, tsp),
                    };
                    let dty = self.subst(&fr, destination.ty(fr.body, self.tcx).ty);
                    match self.call(&mut st, base, cdid, cargs, argv, argtys, dest, dty, *target, tsp) {
                        Ok(None) => {}
                        Ok(Some(o)) => return o,
                        Err(e) if e.starts_with("PANIC:") => {
                            self.stats.borrow_mut().leaves += 1;
                            return Outcome::Panic(e[6..].to_string(), self.span_str(tsp));
                        }
                        Err(e) => return self.top(e, tsp),
                    }
                }
                other => return self.top(format!("terminator {:?}", other), tsp),
            }
        }
    }

    fn scalar_like(&self, ty: Ty<'tcx>) -> bool {
        let ty = match ty.kind() {
            ty::Ref(_, inner, _) => *inner,
            _ => ty,
        };
        matches!(ty.kind(), ty::Param(_) | ty::Float(_) | ty::Int(_) | ty::Uint(_) | ty::Alias(..))
    }
    /// is `<t as PartialOrd>::partial_cmp` the `#[derive(PartialOrd)]` one (lexicographic over the fields)?  A hand-written impl
    /// is interpreted like any other code.
    fn partial_ord_is_derived(&self, t: Ty<'tcx>) -> bool {
        let tcx = self.tcx;
        let Some(tr) = tcx.lang_items().partial_ord_trait() else { return false };
        let Some(m) = tcx.associated_items(tr).in_definition_order().find(|a| a.name().as_str() == "partial_cmp") else { return false };
        let args = tcx.mk_args(&[t.into(), t.into()]);
        let r = std::panic::catch_unwind(std::panic::AssertUnwindSafe(|| Instance::try_resolve(tcx, self.tenv, m.def_id, args)));
        match r {
            Ok(Ok(Some(inst))) => {
                let did = inst.def_id();
                let parent = tcx.parent(did);
                tcx.is_automatically_derived(parent)
            }
            _ => false,
        }
    }
    fn deref_val(&self, st: &State<'tcx>, v: &V<'tcx>) -> R<V<'tcx>> {
        let mut cur = v.clone();
        for _ in 0..4 {
            match cur {
                V::Ref(p) => cur = self.read(st, &p)?,
                other => return Ok(other),
            }
        }
        Ok(cur)
    }
    fn sc(&self, st: &State<'tcx>, v: &V<'tcx>) -> R<T> {
        Ok(self.to_term(st, &self.deref_val(st, v)?))
    }

    /// Models of DESIGN §4.4 item 3 / §11 item 2.  Returns Some(result) when a model applies.
    fn model(
        &self,
        st: &mut State<'tcx>,
        name: &str,
        pretty: &str,
        cargs: GenericArgsRef<'tcx>,
        argv: &[V<'tcx>],
        argtys: &[Ty<'tcx>],
        dty: Ty<'tcx>,
    ) -> R<Option<V<'tcx>>> {
        let self_ty = if cargs.len() > 0 { cargs[0].as_type() } else { None };
        let self_scalar = self_ty.map(|t| self.scalar_like(t)).unwrap_or(false);
        let unit = V::Agg(vec![]);
        let ops = [
            ("core::ops::arith::Add::add", "add"),
            ("core::ops::arith::Sub::sub", "sub"),
            ("core::ops::arith::Mul::mul", "mul"),
            ("core::ops::arith::Div::div", "div"),
            ("core::ops::arith::Rem::rem", "rem"),
        ];
        let aops = [
            ("core::ops::arith::AddAssign::add_assign", "add"),
            ("core::ops::arith::SubAssign::sub_assign", "sub"),
            ("core::ops::arith::MulAssign::mul_assign", "mul"),
            ("core::ops::arith::DivAssign::div_assign", "div"),
            ("core::ops::arith::RemAssign::rem_assign", "rem"),
        ];
        let cmps = [
            ("core::cmp::PartialEq::eq", "eq"),
            ("core::cmp::PartialEq::ne", "ne"),
            ("core::cmp::PartialOrd::lt", "lt"),
            ("core::cmp::PartialOrd::le", "le"),
            ("core::cmp::PartialOrd::gt", "gt"),
            ("core::cmp::PartialOrd::ge", "ge"),
        ];
        // Order comparisons of a one-component wrapper (`Rad<S> >= Rad::zero()`): the derived `partial_cmp` would fork four
        // ways per comparison; the comparison of the single scalar inside is the same test with two outcomes.
        if !self_scalar && argv.len() == 2 && matches!(name, "core::cmp::PartialOrd::lt" | "core::cmp::PartialOrd::le" | "core::cmp::PartialOrd::gt" | "core::cmp::PartialOrd::ge") {
            if let Some(t0) = self_ty {
                let t0 = match t0.kind() {
                    ty::Ref(_, i, _) => *i,
                    _ => t0,
                };
                let same_rhs = argtys.get(1).map(|t| { let t = match t.kind() { ty::Ref(_, i, _) => *i, _ => *t }; t == t0 }).unwrap_or(false);
                if same_rhs && matches!(t0.kind(), ty::Adt(d, _) if d.is_struct()) && self.leaf_count(t0) == 1 && self.partial_ord_is_derived(t0) {
                    let (a, b) = (self.deref_val(st, &argv[0])?, self.deref_val(st, &argv[1])?);
                    let (mut la, mut lb) = (vec![], vec![]);
                    self.flatten(&a, t0, &mut la);
                    self.flatten(&b, t0, &mut lb);
                    if la.len() == 1 && lb.len() == 1 && matches!(la[0], V::Sym(_) | V::Int(_)) && matches!(lb[0], V::Sym(_) | V::Int(_)) {
                        let op = name.rsplit("::").next().unwrap();
                        let (x, y) = (self.to_term(st, &la[0]), self.to_term(st, &lb[0]));
                        return Ok(Some(V::Sym(app(op, vec![x, y]))));
                    }
                }
            }
        }
        if self_scalar {
            // the right operand must be scalar-like too (S * Vector3<S> for primitive S is an impl in cgmath)
            let rhs_scalar = argtys.get(1).map(|t| self.scalar_like(*t)).unwrap_or(true);
            // concrete integers (loop counters, indices): evaluate, do not build terms
            if argv.len() == 2 && rhs_scalar {
                if let (Ok(V::Int(x)), Ok(V::Int(y))) = (self.deref_val(st, &argv[0]), self.deref_val(st, &argv[1])) {
                    let bop = match name {
                        "core::ops::arith::Add::add" => Some(BinOp::Add),
                        "core::ops::arith::Sub::sub" => Some(BinOp::Sub),
                        "core::ops::arith::Mul::mul" => Some(BinOp::Mul),
                        "core::ops::arith::Div::div" if y != 0 => Some(BinOp::Div),
                        "core::ops::arith::Rem::rem" if y != 0 => Some(BinOp::Rem),
                        "core::cmp::PartialEq::eq" => Some(BinOp::Eq),
                        "core::cmp::PartialEq::ne" => Some(BinOp::Ne),
                        "core::cmp::PartialOrd::lt" => Some(BinOp::Lt),
                        "core::cmp::PartialOrd::le" => Some(BinOp::Le),
                        "core::cmp::PartialOrd::gt" => Some(BinOp::Gt),
                        "core::cmp::PartialOrd::ge" => Some(BinOp::Ge),
                        _ => None,
                    };
                    if let Some(b) = bop {
                        let oty = match argtys[0].kind() {
                            ty::Ref(_, i, _) => *i,
                            _ => argtys[0],
                        };
                        return Ok(Some(self.binop(st, b, &V::Int(x), &V::Int(y), oty)));
                    }
                }
            }
            for (n, o) in ops {
                if name == n && rhs_scalar {
                    let (a, b) = (self.sc(st, &argv[0])?, self.sc(st, &argv[1])?);
                    return Ok(Some(V::Sym(self.arith(o, a, b))));
                }
            }
            for (n, o) in aops {
                if name == n && rhs_scalar {
                    if let V::Ref(p) = &argv[0] {
                        let cur = self.read(st, p)?;
                        let (a, b) = (self.to_term(st, &cur), self.sc(st, &argv[1])?);
                        let nv = V::Sym(self.arith(o, a, b));
                        self.write(st, p, nv)?;
                        return Ok(Some(unit));
                    }
                }
            }
            for (n, o) in cmps {
                if name == n && rhs_scalar {
                    let (a, b) = (self.sc(st, &argv[0])?, self.sc(st, &argv[1])?);
                    return Ok(Some(V::Sym(app(o, vec![a, b]))));
                }
            }
            if name == "core::ops::arith::Neg::neg" {
                let a = self.sc(st, &argv[0])?;
                if let Some((f, w)) = terms::as_float(a) {
                    return Ok(Some(V::Sym(cfloat((-f).to_bits(), w))));
                }
                return Ok(Some(V::Sym(app("neg", vec![a]))));
            }
            if name == "core::clone::Clone::clone" {
                return Ok(Some(self.deref_val(st, &argv[0])?));
            }
            match name {
                "num_traits::identities::Zero::zero" => return Ok(Some(V::Sym(cint("0")))),
                "num_traits::identities::One::one" => return Ok(Some(V::Sym(cint("1")))),
                "num_traits::identities::Zero::is_zero" => {
                    let a = self.sc(st, &argv[0])?;
                    return Ok(Some(V::Sym(app("eq", vec![a, cint("0")]))));
                }
                "num_traits::cast::NumCast::from" => {
                    let a = self.deref_val(st, &argv[0])?;
                    let t = match &a {
                        V::Int(x) => {
                            let (bits, signed) = self.int_bits(argtys[0]);
                            if signed {
                                cint(&Self::sext(bits, *x).to_string())
                            } else {
                                cint(&x.to_string())
                            }
                        }
                        other => self.to_term(st, other),
                    };
                    if terms::is_const(t) {
                        return Ok(Some(V::Enum(1, vec![V::Sym(t)])));
                    }
                    // (the outcome depends on the TARGET type as much as on the value: `<f64 as NumCast>::from(x)` and
                    // `<T as NumCast>::from(x)` are different questions)
                    let target = self_ty.map(|t| format!("{:?}", t)).unwrap_or_default();
                    return Ok(Some(V::Sym(app("numcast", vec![t, cstr(&target)]))));
                }
                _ => {}
            }
            if let Some(m) = name.strip_prefix("num_traits::float::Float::").or_else(|| name.strip_prefix("num_traits::real::Real::")) {
                let ts: Vec<T> = {
                    let mut v = vec![];
                    for a in argv {
                        v.push(self.sc(st, a)?);
                    }
                    v
                };
                let one = cint("1");
                let r = match (m, ts.len()) {
                    ("recip", 1) => V::Sym(self.arith("div", one, ts[0])),
                    ("mul_add", 3) => V::Sym(self.arith("add", self.arith("mul", ts[0], ts[1]), ts[2])),
                    ("sin_cos", 1) => V::Agg(vec![V::Sym(app("sin", vec![ts[0]])), V::Sym(app("cos", vec![ts[0]]))]),
                    ("powi", 2) => match &argv[1] {
                        V::Int(k) if (*k as i32) >= 0 && (*k as i32) <= 8 => {
                            let mut acc = one;
                            for _ in 0..(*k as i32) {
                                acc = if acc == one { ts[0] } else { app("mul", vec![acc, ts[0]]) };
                            }
                            V::Sym(acc)
                        }
                        _ => V::Sym(app("powi", ts.clone())),
                    },
                    ("sqrt" | "sin" | "cos" | "tan" | "asin" | "acos" | "atan" | "abs" | "signum" | "floor" | "ceil" | "round" | "trunc" | "exp" | "ln", 1) => {
                        V::Sym(app(m, ts.clone()))
                    }
                    ("atan2" | "min" | "max" | "hypot" | "powf", 2) => V::Sym(app(m, ts.clone())),
                    ("is_finite" | "is_nan" | "is_infinite" | "is_sign_negative" | "is_sign_positive", 1) => V::Sym(app(m, ts.clone())),
                    _ => return Ok(None),
                };
                return Ok(Some(r));
            }
        }
        // the text of an owned `String` (`visit_string(self, v: String) { self.visit_str(&v) }`): the heap representation is not
        // modelled, the text is the symbol `as_str(v)`
        let is_string = |t: Ty<'tcx>| matches!(t.kind(), ty::Adt(d, _) if { let p = self.tcx.def_path_str(d.did()); p == "std::string::String" || p == "alloc::string::String" });
        if self_ty.map(|t| is_string(t)).unwrap_or(false)
            && (name == "core::ops::deref::Deref::deref" || name == "core::convert::AsRef::as_ref" || name == "core::borrow::Borrow::borrow" || pretty == "std::string::String::as_str" || pretty == "alloc::string::String::as_str")
            && argv.len() == 1
        {
            let t = self.sc(st, &argv[0])?;
            return Ok(Some(V::Sym(app("as_str", vec![t]))));
        }
        if (name == "core::cmp::PartialEq::eq" || name == "core::cmp::PartialEq::ne") && self_ty.map(|t| { let t = match t.kind() { ty::Ref(_, i, _) => *i, _ => t }; t.is_str() }).unwrap_or(false) {
            let (a, b) = (self.sc(st, &argv[0])?, self.sc(st, &argv[1])?);
            return Ok(Some(V::Sym(app(if name.ends_with("::eq") { "eq" } else { "ne" }, vec![a, b]))));
        }
        // memory primitives (any types)
        match pretty {
            "std::ptr::swap" | "core::ptr::swap" | "std::mem::swap" | "core::mem::swap" => {
                if let (V::Ref(a), V::Ref(b)) = (&argv[0], &argv[1]) {
                    let va = self.read(st, a)?;
                    let vb = self.read(st, b)?;
                    self.write(st, a, vb)?;
                    self.write(st, b, va)?;
                    return Ok(Some(unit));
                }
            }
            "std::mem::replace" | "core::mem::replace" => {
                if let V::Ref(a) = &argv[0] {
                    let old = self.read(st, a)?;
                    self.write(st, a, argv[1].clone())?;
                    return Ok(Some(old));
                }
            }
            "std::ptr::read" | "core::ptr::read" => {
                if let V::Ref(a) = &argv[0] {
                    return Ok(Some(self.read(st, a)?));
                }
            }
            "std::ptr::write" | "core::ptr::write" => {
                if let V::Ref(a) = &argv[0] {
                    self.write(st, a, argv[1].clone())?;
                    return Ok(Some(unit));
                }
            }
            _ => {}
        }
        if let Some(m) = pretty.strip_prefix("core::slice::<impl [T]>::").or_else(|| pretty.strip_prefix("std::slice::<impl [T]>::")) {
            if let Some(V::Ref(p)) = argv.first() {
                if let Some((start, len)) = p.win {
                    let some = |v: V<'tcx>| V::Enum(1, vec![v]);
                    let none = V::Enum(0, vec![]);
                    let sub = |a: usize, l: usize| {
                        let mut q = p.clone();
                        q.win = Some((start + a, l));
                        V::Ref(q)
                    };
                    let idx = |k: usize| -> Option<usize> {
                        match argv.get(k) {
                            Some(V::Int(i)) => Some(*i as usize),
                            _ => None,
                        }
                    };
                    let is_usize = |k: usize| argtys.get(k).map(|t| matches!(t.kind(), ty::Uint(ty::UintTy::Usize))).unwrap_or(false);
                    match m {
                        "len" => return Ok(Some(V::Int(len as u128))),
                        "is_empty" => return Ok(Some(V::Int((len == 0) as u128))),
                        "iter" | "iter_mut" => return Ok(Some(V::Iter { ptr: p.clone(), front: 0, back: len, by_value: false })),
                        "first" | "first_mut" => return Ok(Some(if len > 0 { some(V::Ref(self.elem_ptr(p, 0)?)) } else { none })),
                        "last" | "last_mut" => return Ok(Some(if len > 0 { some(V::Ref(self.elem_ptr(p, len - 1)?)) } else { none })),
                        "get" | "get_mut" if is_usize(1) => {
                            if let Some(i) = idx(1) {
                                return Ok(Some(if i < len { some(V::Ref(self.elem_ptr(p, i)?)) } else { none }));
                            }
                        }
                        "swap" => {
                            if let (Some(a), Some(b)) = (idx(1), idx(2)) {
                                let (pa, pb) = (self.elem_ptr(p, a)?, self.elem_ptr(p, b)?);
                                let (va, vb) = (self.read(st, &pa)?, self.read(st, &pb)?);
                                self.write(st, &pa, vb)?;
                                self.write(st, &pb, va)?;
                                return Ok(Some(unit));
                            }
                        }
                        // in-place permutations and bulk copies of a window of known length, element by element
                        "reverse" | "rotate_left" | "rotate_right" => {
                            let k = if m == "reverse" { Some(0) } else { idx(1) };
                            if let Some(k) = k {
                                if k > len {
                                    return Err("PANIC:assertion failed: mid <= self.len()".into());
                                }
                                let ps: Vec<Ptr<'tcx>> = (0..len).map(|i| self.elem_ptr(p, i)).collect::<R<Vec<_>>>()?;
                                let vs: Vec<V<'tcx>> = ps.iter().map(|q| self.read(st, q)).collect::<R<Vec<_>>>()?;
                                for i in 0..len {
                                    let src = match m {
                                        "reverse" => len - 1 - i,
                                        "rotate_left" => (i + k) % len,
                                        _ => (i + len - k % len.max(1)) % len,
                                    };
                                    self.write(st, &ps[i], vs[src].clone())?;
                                }
                                return Ok(Some(unit));
                            }
                        }
                        "fill" if argv.len() == 2 => {
                            let ety = match self.ptr_ty(st, p)?.kind() {
                                ty::Slice(e) | ty::Array(e, _) => Some(*e),
                                _ => None,
                            };
                            if ety.map(|e| self.scalar_like(e)).unwrap_or(false) {
                                for i in 0..len {
                                    let q = self.elem_ptr(p, i)?;
                                    self.write(st, &q, argv[1].clone())?;
                                }
                                return Ok(Some(unit));
                            }
                        }
                        "copy_from_slice" | "clone_from_slice" | "swap_with_slice" if argv.len() == 2 => {
                            if let V::Ref(o) = &argv[1] {
                                let ety = match self.ptr_ty(st, p)?.kind() {
                                    ty::Slice(e) | ty::Array(e, _) => Some(*e),
                                    _ => None,
                                };
                                let plain = m != "clone_from_slice" || ety.map(|e| self.scalar_like(e)).unwrap_or(false);
                                if let (Some((_, olen)), true) = (o.win, plain) {
                                    if olen != len {
                                        return Err("PANIC:source slice length does not match destination slice length".into());
                                    }
                                    let vs: Vec<V<'tcx>> = (0..len).map(|i| self.elem_ptr(o, i).and_then(|q| self.read(st, &q))).collect::<R<Vec<_>>>()?;
                                    let ws: Vec<V<'tcx>> = (0..len).map(|i| self.elem_ptr(p, i).and_then(|q| self.read(st, &q))).collect::<R<Vec<_>>>()?;
                                    for i in 0..len {
                                        let q = self.elem_ptr(p, i)?;
                                        self.write(st, &q, vs[i].clone())?;
                                        if m == "swap_with_slice" {
                                            let q2 = self.elem_ptr(o, i)?;
                                            self.write(st, &q2, ws[i].clone())?;
                                        }
                                    }
                                    return Ok(Some(unit));
                                }
                            }
                        }
                        // windows(n) / chunks_exact(n) with a concrete n: a by-value cursor over the list of sub-slices
                        "windows" | "chunks_exact" | "chunks_exact_mut" | "chunks" | "chunks_mut" => {
                            if let Some(n) = idx(1) {
                                if n == 0 {
                                    return Err("PANIC:window size must be non-zero".into());
                                }
                                let starts: Vec<usize> = match m {
                                    "windows" => if len >= n { (0..=len - n).collect() } else { vec![] },
                                    "chunks" | "chunks_mut" => (0..(len + n - 1) / n).map(|i| i * n).collect(),
                                    _ => (0..len / n).map(|i| i * n).collect(),
                                };
                                let rty = Ty::new_imm_ref(self.tcx, self.tcx.lifetimes.re_erased, self.ptr_ty(st, p)?);
                                // (the last chunk of `chunks` may be shorter)
                                let items: Vec<V<'tcx>> = starts.iter().map(|a| sub(*a, std::cmp::min(n, len - *a))).collect();
                                let cnt = items.len();
                                let aty = Ty::new_array(self.tcx, rty, cnt as u64);
                                st.cells.push(Cell { ty: aty, v: V::Agg(items), name: None });
                                let mut q = ptr0(st.cells.len() - 1);
                                q.win = Some((0, cnt));
                                return Ok(Some(V::Iter { ptr: q, front: 0, back: cnt, by_value: true }));
                            }
                        }
                        "split_at" | "split_at_mut" => {
                            if let Some(mid) = idx(1) {
                                if mid > len {
                                    return Err("PANIC:split_at: mid > len".into());
                                }
                                return Ok(Some(V::Agg(vec![sub(0, mid), sub(mid, len - mid)])));
                            }
                        }
                        "split_first" | "split_first_mut" => {
                            return Ok(Some(if len > 0 { some(V::Agg(vec![V::Ref(self.elem_ptr(p, 0)?), sub(1, len - 1)])) } else { none }));
                        }
                        "split_last" | "split_last_mut" => {
                            return Ok(Some(if len > 0 { some(V::Agg(vec![V::Ref(self.elem_ptr(p, len - 1)?), sub(0, len - 1)])) } else { none }));
                        }
                        "get_unchecked" | "get_unchecked_mut" if is_usize(1) => {
                            if let Some(i) = idx(1) {
                                if i >= len {
                                    return Err(format!("unchecked out-of-bounds access: index {} of a slice of length {}", i, len));
                                }
                                return Ok(Some(V::Ref(self.elem_ptr(p, i)?)));
                            }
                        }
                        "as_ptr" | "as_mut_ptr" if len > 0 => return Ok(Some(V::Ref(self.elem_ptr(p, 0)?))),
                        _ => {}
                    }
                }
            }
        }
        // `&s[a..b]`, `&s[a..]`, `&s[..b]`, `&s[..]` on an array or a slice window with concrete bounds: a sub-window
        if (name == "core::ops::index::Index::index" || name == "core::ops::index::IndexMut::index_mut") && argv.len() == 2 {
            if let (V::Ref(p), Some(ity)) = (&argv[0], argtys.get(1)) {
                let recv = match p.win {
                    Some(w) => Some(w),
                    None => match self.ptr_ty(st, p).ok().map(|t| t.kind().clone()) {
                        Some(ty::Array(_, n)) => n.try_to_target_usize(self.tcx).map(|n| (0usize, n as usize)),
                        _ => None,
                    },
                };
                if let (Some((start, len)), ty::Adt(d, _)) = (recv, ity.kind()) {
                    let nm = self.tcx.def_path_str(d.did());
                    let ints: Option<Vec<usize>> = match &argv[1] {
                        V::Agg(fs) => fs.iter().map(|f| if let V::Int(i) = f { Some(*i as usize) } else { None }).collect(),
                        _ => None,
                    };
                    if let Some(ints) = ints {
                        let ab = if nm.ends_with("ops::Range") && ints.len() == 2 {
                            Some((ints[0], ints[1]))
                        } else if nm.ends_with("ops::RangeFrom") && ints.len() == 1 {
                            Some((ints[0], len))
                        } else if nm.ends_with("ops::RangeTo") && ints.len() == 1 {
                            Some((0, ints[0]))
                        } else if nm.ends_with("ops::RangeToInclusive") && ints.len() == 1 {
                            Some((0, ints[0] + 1))
                        } else if nm.ends_with("ops::RangeFull") {
                            Some((0, len))
                        } else {
                            None
                        };
                        if let Some((a, b)) = ab {
                            if a > b || b > len {
                                return Err("PANIC:slice index out of range".into());
                            }
                            let mut q = p.clone();
                            q.win = Some((start + a, b - a));
                            return Ok(Some(V::Ref(q)));
                        }
                    }
                }
            }
        }
        // by-value array iteration
        if name == "core::iter::traits::collect::IntoIterator::into_iter" {
            if let (Some(t0), Some(v0)) = (argtys.first(), argv.first()) {
                if let (ty::Array(_, n), V::Agg(_) | V::Undef) = (t0.kind(), v0) {
                    if let Some(n) = n.try_to_target_usize(self.tcx) {
                        st.cells.push(Cell { ty: *t0, v: v0.clone(), name: None });
                        let mut q = ptr0(st.cells.len() - 1);
                        q.win = Some((0, n as usize));
                        return Ok(Some(V::Iter { ptr: q, front: 0, back: n as usize, by_value: true }));
                    }
                }
                // `for x in &array` / `for x in slice`: the same cursor `iter()` gives
                if let (ty::Ref(_, inner, _), V::Ref(p)) = (t0.kind(), v0) {
                    match (inner.kind(), p.win) {
                        (ty::Array(_, n), None) => {
                            if let Some(n) = n.try_to_target_usize(self.tcx) {
                                let mut q = p.clone();
                                q.win = Some((0, n as usize));
                                return Ok(Some(V::Iter { ptr: q, front: 0, back: n as usize, by_value: false }));
                            }
                        }
                        (ty::Slice(_), Some((_, len))) => return Ok(Some(V::Iter { ptr: p.clone(), front: 0, back: len, by_value: false })),
                        _ => {}
                    }
                }
            }
        }
        if pretty == "core::slice::<impl [T]>::get_unchecked" || pretty == "core::slice::<impl [T]>::get_unchecked_mut" || pretty == "std::slice::<impl [T]>::get_unchecked" || pretty == "std::slice::<impl [T]>::get_unchecked_mut" {
            if let (V::Ref(a), V::Int(i)) = (&argv[0], &argv[1]) {
                let pty = self.ptr_ty(st, a)?;
                let n = self.field_tys(pty).map(|f| f.len());
                match n {
                    Some(n) if (*i as usize) < n => {
                        let mut q = a.clone();
                        q.segs.last_mut().unwrap().path.push(PE::F(*i as usize));
                        return Ok(Some(V::Ref(q)));
                    }
                    _ => return Err(format!("unchecked out-of-bounds access: index {} of {:?}", i, pty)),
                }
            }
            return Err("get_unchecked with symbolic index".into());
        }
        if pretty == "core::slice::<impl [T]>::len" || pretty == "std::slice::<impl [T]>::len" {
            if let V::Ref(a) = &argv[0] {
                let pty = self.ptr_ty(st, a)?;
                if let Some(f) = self.field_tys(pty) {
                    return Ok(Some(V::Int(f.len() as u128)));
                }
            }
            let t = self.sc(st, &argv[0])?;
            return Ok(Some(V::Sym(app("len", vec![t]))));
        }
        // `slice::from_raw_parts(_mut)(p, n)` with p pointing at element i of an array (view) and a concrete n: the window [i, i + n)
        if matches!(pretty, "core::slice::from_raw_parts" | "core::slice::from_raw_parts_mut" | "std::slice::from_raw_parts" | "std::slice::from_raw_parts_mut") {
            if let (Some(V::Ref(p)), Some(V::Int(n))) = (argv.first(), argv.get(1)) {
                if p.win.is_none() {
                    let mut q = p.clone();
                    if let Some(PE::F(i)) = q.segs.last_mut().and_then(|sg| sg.path.pop()) {
                        if let Ok(cty) = self.ptr_ty(st, &q) {
                            if let ty::Array(_, m) = cty.kind() {
                                if let Some(m) = m.try_to_target_usize(self.tcx) {
                                    if i + (*n as usize) <= m as usize {
                                        q.win = Some((i, *n as usize));
                                        return Ok(Some(V::Ref(q)));
                                    }
                                }
                            }
                        }
                    }
                }
            }
        }
        // integer intrinsics on concrete operands (index arithmetic such as `last.saturating_sub(1)`)
        if let Some(m) = pretty.strip_prefix("std::intrinsics::").or_else(|| pretty.strip_prefix("core::intrinsics::")) {
            // bit counting on a concrete integer (`(!seen).trailing_zeros()` over a mask of fields)
            if let (Some(V::Int(a)), Some(t0), 1) = (argv.first(), argtys.first(), argv.len()) {
                if t0.is_integral() {
                    let (bits, _) = self.int_bits(*t0);
                    let x = Self::trunc(bits, *a);
                    let r = match m {
                        "cttz" | "cttz_nonzero" => Some(if x == 0 { bits } else { x.trailing_zeros() }),
                        "ctlz" | "ctlz_nonzero" => Some(if x == 0 { bits } else { x.leading_zeros() - (128 - bits) }),
                        "ctpop" => Some(x.count_ones()),
                        _ => None,
                    };
                    if let Some(r) = r {
                        return Ok(Some(V::Int(r as u128)));
                    }
                }
            }
            if let (Some(V::Int(a)), Some(V::Int(b)), Some(t0)) = (argv.first(), argv.get(1), argtys.first()) {
                if t0.is_integral() && argv.len() == 2 {
                    let (bits, signed) = self.int_bits(*t0);
                    let sx = |x: u128| -> i128 {
                        if signed && bits < 128 && (x >> (bits - 1)) & 1 == 1 { (x | (!0u128 << bits)) as i128 } else { x as i128 }
                    };
                    let (lo, hi): (i128, i128) = if signed {
                        if bits >= 128 { (i128::MIN, i128::MAX) } else { (-(1i128 << (bits - 1)), (1i128 << (bits - 1)) - 1) }
                    } else if bits >= 127 { (0, i128::MAX) } else { (0, (1i128 << bits) - 1) };
                    let (x, y) = (sx(*a), sx(*b));
                    let r: Option<i128> = if bits > 64 {
                        None
                    } else {
                        match m {
                            "saturating_add" => Some((x + y).clamp(lo, hi)),
                            "saturating_sub" => Some((x - y).clamp(lo, hi)),
                            "wrapping_add" | "unchecked_add" => Some(x + y),
                            "wrapping_sub" | "unchecked_sub" => Some(x - y),
                            "wrapping_mul" | "unchecked_mul" => Some(x.wrapping_mul(y)),
                            _ => None,
                        }
                    };
                    if let Some(r) = r {
                        return Ok(Some(V::Int(Self::trunc(bits, r as u128))));
                    }
                }
            }
        }
        if pretty == "std::intrinsics::raw_eq" || pretty == "core::intrinsics::raw_eq" {
            // bytewise equality of two arrays of integers / bools (`[bool; N] == [bool; N]`): the conjunction of the element
            // equalities, evaluated without short-circuit
            if let (V::Ref(a), V::Ref(b)) = (&argv[0], &argv[1]) {
                let pty = self.ptr_ty(st, a)?;
                if let ty::Array(ety, _) = pty.kind() {
                    if ety.is_bool() || ety.is_integral() {
                        if let (V::Agg(xs), V::Agg(ys)) = (self.read(st, a)?, self.read(st, b)?) {
                            if xs.len() == ys.len() {
                                let mut acc = V::Int(1);
                                for (x, y) in xs.iter().zip(ys.iter()) {
                                    let e = match (x, y) {
                                        (V::Int(p), V::Int(q)) => V::Int((p == q) as u128),
                                        (x, V::Int(1)) | (V::Int(1), x) if ety.is_bool() => x.clone(),
                                        (x, V::Int(0)) | (V::Int(0), x) if ety.is_bool() => V::Sym(app("not", vec![self.to_term(st, x)])),
                                        _ => self.binop(st, mir::BinOp::Eq, x, y, *ety),
                                    };
                                    acc = self.binop(st, mir::BinOp::BitAnd, &acc, &e, self.tcx.types.bool);
                                }
                                return Ok(Some(acc));
                            }
                        }
                    }
                }
            }
        }
        if pretty == "std::intrinsics::size_of" || pretty == "core::intrinsics::size_of" || pretty == "std::mem::size_of" || pretty == "core::mem::size_of" {
            if let Some(t) = cargs.get(0).and_then(|a| a.as_type()).and_then(|t| self.layout_term(t, true)) {
                return Ok(Some(V::Sym(t)));
            }
            if let Some(n) = cargs.get(0).and_then(|a| a.as_type()).and_then(|t| self.concrete_layout(t)).map(|l| l.0) {
                return Ok(Some(V::Int(n as u128)));
            }
            return Ok(Some(V::Sym(app("size_of", vec![cstr(&format!("{:?}", cargs))]))));
        }
        if matches!(&pretty[..], "std::intrinsics::align_of" | "core::intrinsics::align_of" | "std::mem::align_of" | "core::mem::align_of") {
            if let Some(t) = cargs.get(0).and_then(|a| a.as_type()).and_then(|t| self.layout_term(t, false)) {
                return Ok(Some(V::Sym(t)));
            }
            if let Some(n) = cargs.get(0).and_then(|a| a.as_type()).and_then(|t| self.concrete_layout(t)).map(|l| l.1) {
                return Ok(Some(V::Int(n as u128)));
            }
        }
        // validity assertions of `assume_init` / `zeroed` / `uninitialized`: about the type, not about values
        if matches!(&pretty[..], "std::intrinsics::assert_inhabited" | "core::intrinsics::assert_inhabited" | "std::intrinsics::assert_zero_valid" | "core::intrinsics::assert_zero_valid" | "std::intrinsics::assert_mem_uninitialized_valid" | "core::intrinsics::assert_mem_uninitialized_valid") {
            return Ok(Some(V::Agg(vec![])));
        }
        let _ = dty;
        Ok(None)
    }

    /// A method of core's iterator plumbing whose implementation is selected by specialisation (`FlattenCompat::try_fold` is
    /// specialised on `U: OneShot`) cannot be resolved while the element type is a parameter.  The selection is made with the
    /// parameters replaced by three different assignments of scalar types; if all three select the same item, with the same
    /// arguments once the scalars are mapped back to the parameters, that item is the one every instantiation uses.
    fn resolve_parametric(&self, cdid: DefId, cargs: GenericArgsRef<'tcx>) -> Option<Instance<'tcx>> {
        use rustc_middle::ty::{TypeFoldable, TypeSuperVisitable, TypeVisitable, TypeVisitor};
        let tcx = self.tcx;
        let marks = [tcx.types.f32, tcx.types.f64, tcx.types.i32, tcx.types.u8];
        struct Seen<'tcx> {
            params: Vec<(u32, Ty<'tcx>)>,
            tys: Vec<Ty<'tcx>>,
        }
        impl<'tcx> TypeVisitor<TyCtxt<'tcx>> for Seen<'tcx> {
            fn visit_ty(&mut self, t: Ty<'tcx>) {
                if let ty::Param(p) = t.kind() {
                    if !self.params.iter().any(|(i, _)| *i == p.index) {
                        self.params.push((p.index, t));
                    }
                } else {
                    self.tys.push(t);
                }
                t.super_visit_with(self)
            }
        }
        let mut seen = Seen { params: vec![], tys: vec![] };
        cargs.visit_with(&mut seen);
        if seen.params.is_empty() || seen.params.len() > marks.len() || seen.tys.iter().any(|t| marks.contains(t)) {
            return None;
        }
        let mut found: Option<(DefId, GenericArgsRef<'tcx>)> = None;
        for rot in 0..3 {
            let assign: Vec<(u32, Ty<'tcx>, Ty<'tcx>)> = seen.params.iter().enumerate().map(|(i, p)| (p.0, marks[(i + rot) % marks.len()], p.1)).collect();
            let fwd = cargs.fold_with(&mut ty::BottomUpFolder {
                tcx,
                ty_op: |t| match t.kind() {
                    ty::Param(p) => assign.iter().find(|(i, _, _)| *i == p.index).map(|(_, m, _)| *m).unwrap_or(t),
                    _ => t,
                },
                lt_op: |l| l,
                ct_op: |c| c,
            });
            let r = std::panic::catch_unwind(std::panic::AssertUnwindSafe(|| Instance::try_resolve(tcx, self.tenv, cdid, fwd)));
            let inst = match r {
                Ok(Ok(Some(i))) => i,
                _ => return None,
            };
            let did = match inst.def {
                InstanceKind::Item(d) => d,
                _ => return None,
            };
            // map the scalars back to the parameters they stand for
            let back = inst.args.fold_with(&mut ty::BottomUpFolder {
                tcx,
                ty_op: |t| match assign.iter().find(|(_, m, _)| *m == t) {
                    Some((_, _, orig)) => *orig,
                    None => t,
                },
                lt_op: |l| l,
                ct_op: |c| c,
            });
            match &found {
                None => found = Some((did, back)),
                Some((d0, a0)) => {
                    if *d0 != did || *a0 != back {
                        return None;
                    }
                }
            }
        }
        let (did, args) = found?;
        // (every marker must have been mapped back)
        let mut seen2 = Seen { params: vec![], tys: vec![] };
        args.visit_with(&mut seen2);
        if seen2.tys.iter().any(|t| marks.contains(t)) {
            return None;
        }
        Some(Instance::new_raw(did, args))
    }

    #[allow(clippy::too_many_arguments)]
    fn call(
        &self,
        st: &mut State<'tcx>,
        base: usize,
        cdid: DefId,
        cargs: GenericArgsRef<'tcx>,
        argv: Vec<V<'tcx>>,
        argtys: Vec<Ty<'tcx>>,
        dest: Ptr<'tcx>,
        dty: Ty<'tcx>,
        target: Option<BasicBlock>,
        sp: Span,
    ) -> R<Option<Outcome<'tcx>>> {
        let tcx = self.tcx;
        let name = self.iname(cdid);
        let pretty = tcx.def_path_str(cdid);
        // diverging
        if target.is_none() {
            self.stats.borrow_mut().leaves += 1;
            return Ok(Some(Outcome::Panic(pretty, self.span_str(sp))));
        }
        let finish = |this: &Self, st: &mut State<'tcx>, r: V<'tcx>| -> R<()> {
            this.write(st, &dest, r)?;
            this.goto(st, target.unwrap());
            Ok(())
        };
        if name.starts_with("core::fmt") || name.starts_with("alloc::fmt") || pretty.starts_with("std::fmt") {
            let r = self.shape(st, dty, atom("fmt"));
            finish(self, st, r)?;
            return Ok(None);
        }
        // `(&slice).into_iter()` for a slice of unknown length is `slice.iter()` (core's cross-crate MIR has `iter` and `Iter::new`
        // already inlined into it, pointer arithmetic included): the same opaque iterator either way
        if name == "core::iter::traits::collect::IntoIterator::into_iter" && argv.len() == 1 {
            if let (Some(ty::Ref(_, inner, m)), Some(V::Ref(p))) = (argtys.first().map(|t| t.kind()), argv.first()) {
                if let (ty::Slice(elem), None, true) = (inner.kind(), p.win, m.is_not()) {
                    if let Some(did) = tcx.get_diagnostic_item(rustc_span::Symbol::intern("slice_iter")) {
                        let cargs2 = tcx.mk_args(&[(*elem).into()]);
                        return self.call(st, base, did, cargs2, argv, argtys, dest, dty, target, sp);
                    }
                }
            }
        }
        // partial_cmp on the abstract scalar: a four-way fork, so that guards stay comparison terms
        if name == "core::cmp::PartialOrd::partial_cmp" && cargs.len() > 0 && cargs[0].as_type().map(|t| self.scalar_like(t)).unwrap_or(false) {
            let (a, b) = (self.sc(st, &argv[0])?, self.sc(st, &argv[1])?);
            push_uniq(&mut self.stats.borrow_mut().models, name.clone());
            let t = app("cmp", vec![a, b]);
            if let Some(&(_, k)) = st.decided.iter().find(|(d, _)| *d == t) {
                // the same comparison was already settled on this path
                let k = k as u32;
                let r = if k == 3 { V::Enum(0, vec![]) } else { V::Enum(1, vec![V::Enum(k, vec![])]) };
                finish(self, st, r)?;
                return Ok(None);
            }
            let mut outs = vec![];
            // Ordering: Less = -1, Equal = 0, Greater = 1 (variant indices 0,1,2); 3 = unordered (None)
            for k in 0u32..4 {
                let mut s1 = st.clone();
                s1.decided.push((t, k as u128));
                let r = if k == 3 { V::Enum(0, vec![]) } else { V::Enum(1, vec![V::Enum(k, vec![])]) };
                finish(self, &mut s1, r)?;
                outs.push((k as u128, self.run_from(&mut s1, base)));
            }
            return Ok(Some(Outcome::Switch(t, outs, None)));
        }
        // `[T; N]::map(f)`: f applied to every element in order (a native continuation, see step_pending)
        if (pretty == "core::array::<impl [T; N]>::map" || pretty == "std::array::<impl [T; N]>::map") && argv.len() == 2 {
            if let (V::Agg(items), ty::Array(item_ty, _), ty::Array(out_ty, _), Some(tgt)) = (&argv[0], argtys[0].kind(), dty.kind(), target) {
                st.cells.push(Cell { ty: argtys[1], v: argv[1].clone(), name: None });
                let fcell = st.cells.len() - 1;
                st.cells.push(Cell { ty: *out_ty, v: V::Undef, name: None });
                let slot = st.cells.len() - 1;
                st.pending.push(Pending { depth: st.frames.len(), fcell, fty: argtys[1], items: items.clone(), item_ty: *item_ty, out_ty: *out_ty, idx: 0, results: vec![], slot, dest: dest.clone(), target: tgt, acc: None });
                push_uniq(&mut self.stats.borrow_mut().models, name.clone());
                return self.step_pending(st, base);
            }
        }
        // `zip(a, b).fold(init, f)` / `.for_each(..)` over two concrete cursors: f applied to the pairs in lock step
        if name == "core::iter::adapters::zip::ZipImpl::fold" && argv.len() == 3 {
            if let (V::Agg(fs), Some(tgt)) = (&argv[0], target) {
                if fs.len() >= 2 {
                    if let (V::Iter { ptr: p1, front: f1, back: b1, by_value: v1 }, V::Iter { ptr: p2, front: f2, back: b2, by_value: v2 }) = (&fs[0], &fs[1]) {
                        let n = std::cmp::min(b1 - f1, b2 - f2);
                        let mut items = vec![];
                        for i in 0..n {
                            items.push(V::Agg(vec![self.cursor_elem(st, p1, f1 + i, *v1)?, self.cursor_elem(st, p2, f2 + i, *v2)?]));
                        }
                        let iter_trait = tcx.require_lang_item(LangItem::Iterator, rustc_span::DUMMY_SP);
                        let item_did = tcx.associated_items(iter_trait).in_definition_order().find(|a| a.name().as_str() == "Item").ok_or("no Iterator::Item")?.def_id;
                        let item_ty = self.norm(Ty::new_projection(tcx, item_did, [argtys[0]]));
                        st.cells.push(Cell { ty: argtys[2], v: argv[2].clone(), name: None });
                        let fcell = st.cells.len() - 1;
                        st.cells.push(Cell { ty: dty, v: V::Undef, name: None });
                        let slot = st.cells.len() - 1;
                        st.pending.push(Pending { depth: st.frames.len(), fcell, fty: argtys[2], items, item_ty, out_ty: dty, idx: 0, results: vec![], slot, dest: dest.clone(), target: tgt, acc: Some((argv[1].clone(), argtys[1])) });
                        push_uniq(&mut self.stats.borrow_mut().models, name.clone());
                        return self.step_pending(st, base);
                    }
                }
            }
        }
        // `array::from_fn(f)`: f applied to 0, 1, ..., N-1
        if (pretty == "core::array::from_fn" || pretty == "std::array::from_fn") && argv.len() == 1 {
            if let (ty::Array(out_ty, n), Some(tgt)) = (dty.kind(), target) {
                if let Some(n) = n.try_to_target_usize(tcx) {
                    st.cells.push(Cell { ty: argtys[0], v: argv[0].clone(), name: None });
                    let fcell = st.cells.len() - 1;
                    st.cells.push(Cell { ty: *out_ty, v: V::Undef, name: None });
                    let slot = st.cells.len() - 1;
                    let items = (0..n).map(|i| V::Int(i as u128)).collect();
                    st.pending.push(Pending { depth: st.frames.len(), fcell, fty: argtys[0], items, item_ty: tcx.types.usize, out_ty: *out_ty, idx: 0, results: vec![], slot, dest: dest.clone(), target: tgt, acc: None });
                    push_uniq(&mut self.stats.borrow_mut().models, name.clone());
                    return self.step_pending(st, base);
                }
            }
        }
        // a tuple-struct / tuple-variant constructor used as a function (`.map(Some)`, `.map(Rad)`)
        if let rustc_hir::def::DefKind::Ctor(of, rustc_hir::def::CtorKind::Fn) = tcx.def_kind(cdid) {
            let r = match of {
                rustc_hir::def::CtorOf::Struct => Some(V::Agg(argv.clone())),
                rustc_hir::def::CtorOf::Variant => {
                    let vdid = tcx.parent(cdid);
                    let adid = tcx.parent(vdid);
                    let adt = tcx.adt_def(adid);
                    adt.variants().iter_enumerated().find(|(_, v)| v.def_id == vdid).map(|(vi, _)| V::Enum(vi.as_u32(), argv.clone()))
                }
            };
            if let Some(r) = r {
                finish(self, st, r)?;
                return Ok(None);
            }
        }
        if let Some(r) = self.model(st, &name, &pretty, cargs, &argv, &argtys, dty)? {
            push_uniq(&mut self.stats.borrow_mut().models, name.clone());
            finish(self, st, r)?;
            return Ok(None);
        }
        let concrete_iter = argv.first().map(|a| self.has_iter(st, a, 0)).unwrap_or(false);
        if concrete_iter {
            if let Some(o) = self.iter_call(st, base, cdid, cargs, &argv, &argtys, &dest, dty, target, sp)? {
                return Ok(o);
            }
        }
        // `(0..3).fold(..)`: a range with concrete bounds unrolls like a for-loop over it
        let concrete_range = match (argv.first(), argtys.first()) {
            (Some(v), Some(t)) => self.concrete_range(v, *t, 0),
            _ => false,
        };
        let always_opaque = name == "core::iter::traits::iterator::Iterator::fold" && !concrete_iter && !concrete_range
            || (pretty == "core::slice::<impl [T]>::iter" || pretty == "core::slice::<impl [T]>::iter_mut") && !matches!(argv.first(), Some(V::Ref(p)) if p.win.is_some())
            || name.starts_with("core::slice::index")
            || name == "core::ops::index::Index::index" && cargs.len() > 0 && matches!(cargs[0].expect_ty().kind(), ty::Slice(_) | ty::Array(..)) && !matches!(argv.get(1), Some(V::Int(_)))
            || name == "core::ops::index::IndexMut::index_mut" && cargs.len() > 0 && matches!(cargs[0].expect_ty().kind(), ty::Slice(_) | ty::Array(..)) && !matches!(argv.get(1), Some(V::Int(_)));
        // approx's comparators and default tolerances on a primitive scalar stay symbols, exactly as they are for a generic scalar:
        // they are the atoms the properties are stated in (their bit-level implementations are not the crate under analysis)
        let always_opaque = always_opaque
            || ((name.starts_with("approx::abs_diff_eq::AbsDiffEq::") || name.starts_with("approx::relative_eq::RelativeEq::") || name.starts_with("approx::ulps_eq::UlpsEq::")) && cargs.len() > 0 && cargs[0].as_type().map(|t| t.is_floating_point() || t.is_integral()).unwrap_or(false));
        let resolved = if always_opaque {
            None
        } else {
            match Instance::try_resolve(tcx, self.tenv, cdid, cargs) {
                Ok(r) => r,
                Err(_) => return Err(format!("resolution error for {}", pretty)),
            }
        };
        let resolved = match resolved {
            None if !always_opaque && name.starts_with("core::iter::") && !name.starts_with("core::iter::adapters::zip::") => self.resolve_parametric(cdid, cargs),
            r => r,
        };
        // a call through `&dyn Trait` whose receiver is known to point at a value of a concrete type (a local closure behind
        // `&dyn Fn`): dispatch on that type
        let dyn_recv = cargs.len() > 0 && cargs[0].as_type().map(|t| matches!(t.kind(), ty::Dynamic(..))).unwrap_or(false);
        let resolved = if dyn_recv && !always_opaque && resolved.map(|i| matches!(i.def, InstanceKind::Virtual(..))).unwrap_or(true) {
            let mut r = resolved;
            if let Some(V::Ref(p)) = argv.first() {
                if let Ok(pty) = self.ptr_ty(st, p) {
                    if !matches!(pty.kind(), ty::Dynamic(..)) {
                        let mut v: Vec<ty::GenericArg<'tcx>> = cargs.iter().collect();
                        v[0] = pty.into();
                        let nargs = tcx.mk_args(&v);
                        if let Ok(Ok(Some(i2))) = std::panic::catch_unwind(std::panic::AssertUnwindSafe(|| Instance::try_resolve(tcx, self.tenv, cdid, nargs))) {
                            r = Some(i2);
                        }
                    }
                }
            }
            r
        } else {
            resolved
        };
        // slice sorting: std's implementations are outside the memory model; the analysed harness crate carries a plain stable
        // insertion sort with the same generic signature (`__mirsum_sort_by` ...), which is interpreted instead
        let resolved = match resolved {
            Some(inst) if pretty.contains("slice::<impl [T]>::sort") => {
                let m = pretty.rsplit("::").next().unwrap_or("");
                let helper = match m {
                    "sort_by" | "sort_unstable_by" => Some("__mirsum_sort_by"),
                    "sort_by_key" | "sort_unstable_by_key" => Some("__mirsum_sort_by_key"),
                    _ => None,
                };
                let found = helper.and_then(|h| {
                    tcx.hir_body_owners().map(|l| l.to_def_id()).find(|d| matches!(tcx.def_kind(*d), rustc_hir::def::DefKind::Fn) && tcx.item_name(*d).as_str() == h)
                });
                match found {
                    Some(hd) if tcx.generics_of(hd).count() == cargs.len() => Some(Instance::new_raw(hd, cargs)),
                    _ => Some(inst),
                }
            }
            r => r,
        };
        if let Some(inst) = resolved {
            let rpretty = tcx.def_path_str(inst.def_id());
            let rname = self.iname(inst.def_id());
            if rname != name {
                // a model may apply to what the call resolves to (inherent helpers reached through traits)
                if let Some(r) = self.model(st, &rname, &rpretty, inst.args, &argv, &argtys, dty)? {
                    push_uniq(&mut self.stats.borrow_mut().models, rname.clone());
                    finish(self, st, r)?;
                    return Ok(None);
                }
            }
            let has_mir = match inst.def {
                InstanceKind::Item(d) => tcx.is_mir_available(d),
                InstanceKind::Intrinsic(_) | InstanceKind::Virtual(..) => false,
                _ => true,
            };
            if has_mir {
                if st.frames.len() > DEPTH_CAP {
                    return Err("inlining depth cap".into());
                }
                let body = tcx.instance_mir(inst.def);
                if rname.starts_with("cgmath::") {
                    push_uniq(&mut self.stats.borrow_mut().inlined, format!("{} @ {}", rpretty, self.span_str(body.span)));
                }
                let mut locals = vec![];
                for decl in body.local_decls.iter() {
                    let lty = inst.instantiate_mir_and_normalize_erasing_regions(tcx, self.tenv, EarlyBinder::bind(decl.ty));
                    st.cells.push(Cell { ty: lty, v: V::Undef, name: None });
                    locals.push(st.cells.len() - 1);
                }
                // closures are declared with separate parameters but called with a tupled argument ("rust-call")
                let untuple = matches!(inst.def, InstanceKind::Item(d) if tcx.is_closure_like(d)) && body.spread_arg.is_none();
                if untuple {
                    let n = argv.len();
                    if n == 0 {
                        return Err("argument count mismatch".into());
                    }
                    for i in 0..n - 1 {
                        st.cells[locals[i + 1]].v = argv[i].clone();
                    }
                    match &argv[n - 1] {
                        V::Agg(fs) if n - 1 + fs.len() == body.arg_count => {
                            for (j, f) in fs.iter().enumerate() {
                                st.cells[locals[n + j]].v = f.clone();
                            }
                        }
                        _ => return Err("cannot untuple rust-call arguments".into()),
                    }
                } else {
                    if body.arg_count != argv.len() {
                        return Err(format!("argument count mismatch calling {}", rpretty));
                    }
                    for (i, a) in argv.iter().enumerate() {
                        st.cells[locals[i + 1]].v = a.clone();
                    }
                }
                self.dump(inst, body);
                st.frames.push(Frame { visits: vec![], inst, body, locals, bb: mir::START_BLOCK, skip: 0, ret_to: Some((dest, target)) });
                return Ok(None);
            }
        }
        // `Zip` of two concrete cursors whose specialised implementation cannot be selected in generic context
        // (IterMut zipped with array::IntoIter, ...): the plain lock-step semantics
        if name.starts_with("core::iter::adapters::zip::ZipImpl::") {
            if let Some(r) = self.zip_model(st, &name, &argv)? {
                push_uniq(&mut self.stats.borrow_mut().models, name.clone());
                finish(self, st, r)?;
                return Ok(None);
            }
        }
        // uninterpreted
        let gargs = format!("{:?}", cargs);
        let mut ts = vec![cstr(&name), cstr(&gargs)];
        for a in &argv {
            ts.push(self.to_term(st, a));
        }
        let ct = app("call", ts);
        push_uniq(&mut self.stats.borrow_mut().uninterp, name.clone());
        // effect trace entry
        let mut entry = format!("{{\"fn\":{},\"gargs\":{},\"ret\":{},\"span\":{},\"args\":[", jstr(&name), jstr(&gargs), ct, jstr(&self.span_str(sp)));
        for (i, (a, t)) in argv.iter().zip(&argtys).enumerate() {
            if i > 0 {
                entry.push(',');
            }
            entry.push_str(&self.jval(st, a, *t));
        }
        entry.push(']');
        if (name == "core::iter::traits::iterator::Iterator::fold" || name == "core::iter::traits::iterator::Iterator::try_fold") && argv.len() == 3 {
            let lam = self.lambda(st, cargs, &argv[2], argtys[2], Some(argtys[1]));
            entry.push_str(&format!(",\"lambda\":{}", lam));
        }
        if name == "core::iter::traits::iterator::Iterator::map" && argv.len() == 2 {
            // the mapping closure applied to one fresh item (an adaptor in front of a fold / loop must be shown harmless)
            let lam = self.lambda(st, cargs, &argv[1], argtys[1], None);
            entry.push_str(&format!(",\"lambda\":{}", lam));
        }
        entry.push('}');
        st.trace.push(entry);
        // havoc everything reachable through &mut / *mut arguments, including the ones captured by closures or held in
        // aggregates that are passed by value
        let mut k = 0;
        for (a, t) in argv.iter().zip(&argtys) {
            self.havoc_arg(st, a, *t, ct, &mut k, 0)?;
        }
        let r = self.shape(st, dty, ct);
        finish(self, st, r)?;
        Ok(None)
    }

    /// What an unmodelled callee may have written through one of its arguments.
    fn havoc_arg(&self, st: &mut State<'tcx>, a: &V<'tcx>, t: Ty<'tcx>, ct: T, k: &mut usize, depth: usize) -> R<()> {
        let tcx = self.tcx;
        if depth > 5 {
            return Ok(());
        }
        match t.kind() {
            ty::Ref(_, inner, m) | ty::RawPtr(inner, m) => {
                if let V::Ref(p) = a {
                    if m.is_mut() {
                        if let Some((_, len)) = p.win {
                            // a slice window: every element in it may have been written
                            let ety = self.win_elem_ty(st, p)?;
                            for i in 0..len {
                                let q = self.elem_ptr(p, i)?;
                                let nv = self.shape(st, ety, app("mut", vec![ct, cint(&k.to_string()), cint(&i.to_string())]));
                                self.write(st, &q, nv)?;
                            }
                            *k += 1;
                            return Ok(());
                        }
                        // what the pointee itself captures mutably (`&mut F` with `F` a closure over `&mut self`)
                        if Self::may_hold_mut(tcx, *inner, 0) {
                            if let Ok(cur) = self.read(st, p) {
                                self.havoc_arg(st, &cur, *inner, ct, k, depth + 1)?;
                            }
                        }
                        let pty = self.ptr_ty(st, p)?;
                        let nv = self.shape(st, pty, app("mut", vec![ct, cint(&k.to_string())]));
                        self.write(st, p, nv)?;
                        *k += 1;
                    } else if p.win.is_none() && Self::may_hold_mut(tcx, *inner, 0) {
                        // `&F` where `F: Fn` cannot write through its captures, but a shared reference to a struct of
                        // `&mut` fields cannot either: nothing to do
                    }
                }
            }
            ty::Closure(_, ga) => {
                if let V::Agg(fs) = a {
                    let ups: Vec<Ty<'tcx>> = ga.as_closure().upvar_tys().iter().collect();
                    for (f, ft) in fs.clone().iter().zip(ups) {
                        self.havoc_arg(st, f, ft, ct, k, depth + 1)?;
                    }
                }
            }
            ty::Tuple(ts) => {
                if let V::Agg(fs) = a {
                    for (f, ft) in fs.clone().iter().zip(ts.iter()) {
                        self.havoc_arg(st, f, ft, ct, k, depth + 1)?;
                    }
                }
            }
            ty::Adt(d, ga) if d.is_struct() && Self::may_hold_mut(tcx, t, 0) => {
                if let V::Agg(fs) = a {
                    let ftys: Vec<Ty<'tcx>> = d.non_enum_variant().fields.iter().map(|f| f.ty(tcx, ga)).collect();
                    if ftys.len() == fs.len() {
                        for (f, ft) in fs.clone().iter().zip(ftys) {
                            self.havoc_arg(st, f, ft, ct, k, depth + 1)?;
                        }
                    }
                }
            }
            ty::Adt(d, ga) if d.is_enum() && Self::may_hold_mut(tcx, t, 0) => {
                if let V::Enum(vi, fs) = a {
                    if let Some(var) = d.variants().iter().nth(*vi as usize) {
                        let ftys: Vec<Ty<'tcx>> = var.fields.iter().map(|f| f.ty(tcx, ga)).collect();
                        if ftys.len() == fs.len() {
                            for (f, ft) in fs.clone().iter().zip(ftys) {
                                self.havoc_arg(st, f, ft, ct, k, depth + 1)?;
                            }
                        }
                    }
                }
            }
            _ => {}
        }
        Ok(())
    }

    /// Whether a value of this type can carry a `&mut` / `*mut` somewhere inside it.
    fn may_hold_mut(tcx: TyCtxt<'tcx>, t: Ty<'tcx>, depth: usize) -> bool {
        if depth > 5 {
            return false;
        }
        match t.kind() {
            ty::Ref(_, _, m) | ty::RawPtr(_, m) => m.is_mut(),
            ty::Closure(_, ga) => ga.as_closure().upvar_tys().iter().any(|u| Self::may_hold_mut(tcx, u, depth + 1)),
            ty::Tuple(ts) => ts.iter().any(|u| Self::may_hold_mut(tcx, u, depth + 1)),
            ty::Adt(d, ga) => !d.is_union() && d.all_fields().any(|f| Self::may_hold_mut(tcx, f.ty(tcx, ga), depth + 1)),
            ty::Array(e, _) | ty::Slice(e) => Self::may_hold_mut(tcx, *e, depth + 1),
            _ => false,
        }
    }

    /// One step of `[T; N]::map(f)`: collect the result of the previous call of `f`, start the next one, or finish.
    fn step_pending(&self, st: &mut State<'tcx>, base: usize) -> R<Option<Outcome<'tcx>>> {
        let tcx = self.tcx;
        loop {
            let mut p = st.pending.pop().ok_or("no pending operation")?;
            if p.idx > 0 && p.results.len() < p.idx {
                let v = st.cells[p.slot].v.clone();
                if matches!(v, V::Undef) && p.out_ty != tcx.types.unit {
                    return Err("closure result missing in array::map / fold".into());
                }
                let v = if matches!(v, V::Undef) { V::Agg(vec![]) } else { v };
                if let Some((acc, _)) = p.acc.as_mut() {
                    *acc = v.clone();
                }
                p.results.push(if p.acc.is_some() { V::Undef } else { v });
                st.cells[p.slot].v = V::Undef;
            }
            if p.idx == p.items.len() {
                let r = match &p.acc {
                    Some((acc, _)) => acc.clone(),
                    None => V::Agg(p.results.clone()),
                };
                self.write(st, &p.dest, r)?;
                self.goto(st, p.target);
                return Ok(None);
            }
            let item = p.items[p.idx].clone();
            p.idx += 1;
            let folding = p.acc.clone();
            let (fcell, fty, item_ty, out_ty, slot, depth) = (p.fcell, p.fty, p.item_ty, p.out_ty, p.slot, p.depth);
            let cur_bb = st.frames.last().ok_or("no frame")?.bb;
            st.pending.push(p);
            let fn_mut = tcx.require_lang_item(LangItem::FnMut, rustc_span::DUMMY_SP);
            let call_mut = tcx.associated_items(fn_mut).in_definition_order().find(|a| a.name().as_str() == "call_mut").ok_or("no call_mut")?.def_id;
            let (tup, packed) = match folding {
                Some((acc, acc_ty)) => (Ty::new_tup(tcx, &[acc_ty, item_ty]), V::Agg(vec![acc, item])),
                None => (Ty::new_tup(tcx, &[item_ty]), V::Agg(vec![item])),
            };
            let cargs = tcx.mk_args(&[fty.into(), tup.into()]);
            let fref_ty = Ty::new_mut_ref(tcx, tcx.lifetimes.re_erased, fty);
            let r = self.call(st, base, call_mut, cargs, vec![V::Ref(ptr0(fcell)), packed], vec![fref_ty, tup], ptr0(slot), out_ty, Some(cur_bb), rustc_span::DUMMY_SP)?;
            if let Some(o) = r {
                return Ok(Some(o));
            }
            if st.frames.len() > depth {
                return Ok(None); // the closure body runs; we are called again when it has returned
            }
            // the call was a model / an uninterpreted call: its result is already in the slot
        }
    }

    fn cursor_elem(&self, st: &State<'tcx>, ptr: &Ptr<'tcx>, i: usize, by_value: bool) -> R<V<'tcx>> {
        let (start, _) = ptr.win.ok_or("cursor without window")?;
        let mut q = ptr.clone();
        q.win = None;
        q.segs.last_mut().unwrap().path.push(PE::F(start + i));
        if by_value {
            self.read(st, &q)
        } else {
            Ok(V::Ref(q))
        }
    }

    fn zip_model(&self, st: &mut State<'tcx>, name: &str, argv: &[V<'tcx>]) -> R<Option<V<'tcx>>> {
        let m = name.rsplit("::").next().unwrap_or("");
        match m {
            "new" if argv.len() == 2 => {
                if let (V::Iter { front: f1, back: b1, .. }, V::Iter { front: f2, back: b2, .. }) = (&argv[0], &argv[1]) {
                    let len = std::cmp::min(b1 - f1, b2 - f2);
                    return Ok(Some(V::Agg(vec![argv[0].clone(), argv[1].clone(), V::Int(0), V::Int(len as u128)])));
                }
                Ok(None)
            }
            "next" if argv.len() == 1 => {
                let V::Ref(zp) = &argv[0] else { return Ok(None) };
                let V::Agg(fs) = self.read(st, zp)? else { return Ok(None) };
                if fs.len() < 2 {
                    return Ok(None);
                }
                if let (V::Iter { ptr: p1, front: f1, back: b1, by_value: v1 }, V::Iter { ptr: p2, front: f2, back: b2, by_value: v2 }) = (&fs[0], &fs[1]) {
                    if f1 < b1 && f2 < b2 {
                        let x = self.cursor_elem(st, p1, *f1, *v1)?;
                        let y = self.cursor_elem(st, p2, *f2, *v2)?;
                        let mut nf = fs.clone();
                        nf[0] = V::Iter { ptr: p1.clone(), front: f1 + 1, back: *b1, by_value: *v1 };
                        nf[1] = V::Iter { ptr: p2.clone(), front: f2 + 1, back: *b2, by_value: *v2 };
                        self.write(st, zp, V::Agg(nf))?;
                        return Ok(Some(V::Enum(1, vec![V::Agg(vec![x, y])])));
                    }
                    return Ok(Some(V::Enum(0, vec![])));
                }
                Ok(None)
            }
            _ => Ok(None),
        }
    }

    /// A range with concrete bounds, possibly behind core's iterator adaptors (`(0..n).rev()`, `.map(f)`, `.enumerate()`):
    /// its provided methods unroll like a for-loop over it.
    fn concrete_range(&self, v: &V<'tcx>, t: Ty<'tcx>, depth: usize) -> bool {
        let tcx = self.tcx;
        if depth > 6 {
            return false;
        }
        let (ty::Adt(d, ga), V::Agg(fs)) = (t.kind(), v) else { return false };
        let path = tcx.def_path_str(d.did());
        if path.ends_with("ops::Range") || path.ends_with("ops::RangeInclusive") {
            return fs.len() >= 2 && fs.iter().take(2).all(|f| matches!(f, V::Int(_)));
        }
        if !(path.starts_with("core::iter::adapters::") || path.starts_with("std::iter::")) || !d.is_struct() {
            return false;
        }
        // every field that is itself an iterator must be a concrete range; the other fields (closures, counters) are free
        let mut seen = false;
        for (i, f) in d.non_enum_variant().fields.iter().enumerate() {
            let mut fty = f.ty(tcx, ga);
            let mut fv = fs.get(i);
            // `Fuse { iter: Option<I> }`, `FlattenCompat { frontiter: Option<U>, .. }`
            if let ty::Adt(od, oa) = fty.kind() {
                if tcx.is_lang_item(od.did(), LangItem::Option) {
                    match fv {
                        Some(V::Enum(1, xs)) if xs.len() == 1 => {
                            fty = oa.type_at(0);
                            fv = xs.first();
                        }
                        Some(V::Enum(0, _)) => continue,
                        _ => return false,
                    }
                }
            }
            let is_iter_ty = matches!(fty.kind(), ty::Adt(fd, _) if {
                let p = tcx.def_path_str(fd.did());
                p.ends_with("ops::Range") || p.ends_with("ops::RangeInclusive") || p.starts_with("core::iter::adapters::") || p.starts_with("std::iter::")
            });
            if is_iter_ty {
                match fv {
                    Some(fv) if self.concrete_range(fv, fty, depth + 1) => seen = true,
                    _ => return false,
                }
            }
        }
        seen
    }

    fn has_iter(&self, st: &State<'tcx>, v: &V<'tcx>, depth: usize) -> bool {
        if depth > 6 {
            return false;
        }
        match v {
            V::Iter { .. } => true,
            V::Agg(fs) | V::Enum(_, fs) => fs.iter().any(|f| self.has_iter(st, f, depth + 1)),
            V::Ref(p) if p.win.is_none() => self.read(st, p).map(|x| self.has_iter(st, &x, depth + 1)).unwrap_or(false),
            _ => false,
        }
    }

    /// Calls whose receiver is (or wraps) an abstract slice / array cursor.  The cursor's own methods are models;
    /// every other provided Iterator method is run through the trait's DEFAULT body (core's slice iterators override
    /// them with pointer arithmetic that is outside the memory model).
    #[allow(clippy::too_many_arguments)]
    fn iter_call(
        &self,
        st: &mut State<'tcx>,
        _base: usize,
        cdid: DefId,
        cargs: GenericArgsRef<'tcx>,
        argv: &[V<'tcx>],
        _argtys: &[Ty<'tcx>],
        dest: &Ptr<'tcx>,
        _dty: Ty<'tcx>,
        target: Option<BasicBlock>,
        _sp: Span,
    ) -> R<Option<Option<Outcome<'tcx>>>> {
        let tcx = self.tcx;
        let mname = tcx.item_name(cdid).to_string();
        // is the receiver itself a cursor (possibly behind a reference)?
        let (slot, cur) = {
            let mut slotp: Option<Ptr<'tcx>> = None;
            let mut curv = argv[0].clone();
            for _ in 0..4 {
                match curv {
                    V::Ref(p) if p.win.is_none() => {
                        curv = self.read(st, &p)?;
                        slotp = Some(p);
                    }
                    _ => break,
                }
            }
            match curv {
                it @ V::Iter { .. } => (slotp, Some(it)),
                _ => (None, None),
            }
        };
        if let Some(V::Iter { ptr, front, back, by_value }) = cur {
            let some = |v: V<'tcx>| V::Enum(1, vec![v]);
            let none = V::Enum(0, vec![]);
            let elem = |i: usize| -> R<V<'tcx>> {
                let (start, _) = ptr.win.ok_or("cursor without window")?;
                let mut q = ptr.clone();
                q.win = None;
                q.segs.last_mut().unwrap().path.push(PE::F(start + i));
                if by_value {
                    self.read(st, &q)
                } else {
                    Ok(V::Ref(q))
                }
            };
            let result: Option<(V<'tcx>, Option<V<'tcx>>)> = match mname.as_str() {
                "next" => Some(if front < back { (some(elem(front)?), Some(V::Iter { ptr: ptr.clone(), front: front + 1, back, by_value })) } else { (none, None) }),
                "next_back" => Some(if front < back { (some(elem(back - 1)?), Some(V::Iter { ptr: ptr.clone(), front, back: back - 1, by_value })) } else { (none, None) }),
                "size_hint" => Some((V::Agg(vec![V::Int((back - front) as u128), some(V::Int((back - front) as u128))]), None)),
                "len" | "size" => Some((V::Int((back - front) as u128), None)),
                "__iterator_get_unchecked" => match argv.get(1) {
                    Some(V::Int(i)) if front + (*i as usize) < back => Some((elem(front + *i as usize)?, None)),
                    _ => return Err("iterator random access out of range".into()),
                },
                "into_iter" | "by_ref" => Some((argv[0].clone(), None)),
                "clone" => Some((V::Iter { ptr: ptr.clone(), front, back, by_value }, None)),
                _ => None,
            };
            if let Some((ret, newstate)) = result {
                if let Some(ns) = newstate {
                    match &slot {
                        Some(p) => self.write(st, p, ns)?,
                        None => return Err("cursor advanced by value".into()),
                    }
                }
                self.write(st, dest, ret)?;
                self.goto(st, target.ok_or("diverging iterator call")?);
                return Ok(Some(None));
            }
        }
        // a provided method of Iterator / DoubleEndedIterator / ExactSizeIterator on a concrete cursor or an adaptor around one:
        // use the trait's default body instead of a specialised override
        if let Some(tr) = tcx.trait_of_assoc(cdid) {
            let tname = self.iname(tr);
            let provided = tcx.defaultness(cdid).has_value();
            if provided && (tname == "core::iter::traits::iterator::Iterator" || tname == "core::iter::traits::double_ended::DoubleEndedIterator") && tcx.is_mir_available(cdid) {
                // only when the resolved impl method is an override inside core's slice/array iterator modules
                if let Ok(Some(inst)) = Instance::try_resolve(tcx, self.tenv, cdid, cargs) {
                    let rn = self.iname(inst.def_id());
                    // overrides that only call next() are interpreted as they are
                    // (core's own MIR is pre-optimised: even overrides written with next() have it inlined)
                    let overridden = inst.def_id() != cdid && (rn.starts_with("core::slice::iter") || rn.starts_with("core::array::iter"));
                    if overridden {
                        let dinst = Instance::new_raw(cdid, cargs);
                        self.push_frame(st, dinst, argv.to_vec(), dest.clone(), target)?;
                        return Ok(Some(None));
                    }
                }
            }
        }
        Ok(None)
    }

    fn dump(&self, inst: Instance<'tcx>, body: &Body<'tcx>) {
        if let Some(pat) = &self.dump {
            if self.tcx.def_path_str(inst.def_id()).contains(pat.as_str()) {
                eprintln!("DUMP {:?}", inst);
                for (bb, d) in body.basic_blocks.iter_enumerated() {
                    eprintln!("  {:?}:", bb);
                    for s in &d.statements {
                        eprintln!("    {:?}", s);
                    }
                    eprintln!("    => {:?}", d.terminator().kind);
                }
            }
        }
    }

    fn push_frame(&self, st: &mut State<'tcx>, inst: Instance<'tcx>, argv: Vec<V<'tcx>>, dest: Ptr<'tcx>, target: Option<BasicBlock>) -> R<()> {
        let tcx = self.tcx;
        if st.frames.len() > DEPTH_CAP {
            return Err("inlining depth cap".into());
        }
        let body = tcx.instance_mir(inst.def);
        if body.arg_count != argv.len() {
            return Err("argument count mismatch (default iterator method)".into());
        }
        self.dump(inst, body);
        let mut locals = vec![];
        for decl in body.local_decls.iter() {
            let lty = inst.instantiate_mir_and_normalize_erasing_regions(tcx, self.tenv, EarlyBinder::bind(decl.ty));
            st.cells.push(Cell { ty: lty, v: V::Undef, name: None });
            locals.push(st.cells.len() - 1);
        }
        for (i, a) in argv.iter().enumerate() {
            st.cells[locals[i + 1]].v = a.clone();
        }
        st.frames.push(Frame { visits: vec![], inst, body, locals, bb: mir::START_BLOCK, skip: 0, ret_to: Some((dest, target)) });
        Ok(())
    }

    /// Summary of the callable passed to `Iterator::fold`, applied to fresh symbols (K7).
    fn lambda(&self, st: &State<'tcx>, fold_args: GenericArgsRef<'tcx>, f: &V<'tcx>, fty: Ty<'tcx>, acc_ty: Option<Ty<'tcx>>) -> String {
        let tcx = self.tcx;
        let r: R<String> = (|| {
            let iter_ty = fold_args[0].expect_ty();
            let iter_trait = tcx.require_lang_item(LangItem::Iterator, rustc_span::DUMMY_SP);
            let item_did = tcx
                .associated_items(iter_trait)
                .in_definition_order()
                .find(|a| a.name().as_str() == "Item")
                .ok_or("no Iterator::Item")?
                .def_id;
            let item_ty = self.norm(Ty::new_projection(tcx, item_did, [iter_ty]));
            let fn_once = tcx.require_lang_item(LangItem::FnOnce, rustc_span::DUMMY_SP);
            let call_once = tcx
                .associated_items(fn_once)
                .in_definition_order()
                .find(|a| a.name().as_str() == "call_once")
                .ok_or("no call_once")?
                .def_id;
            let unary = acc_ty.is_none();
            let acc_ty = acc_ty.unwrap_or(tcx.types.unit);
            let tup = if unary { Ty::new_tup(tcx, &[item_ty]) } else { Ty::new_tup(tcx, &[acc_ty, item_ty]) };
            let cargs = tcx.mk_args(&[fty.into(), tup.into()]);
            let inst = Instance::try_resolve(tcx, self.tenv, call_once, cargs).map_err(|_| "resolve err")?.ok_or("callable unresolved")?;
            let body = tcx.instance_mir(inst.def);
            let mut s2 = st.clone();
            s2.frames.clear();
            s2.trace.clear();
            let acc = self.mk_sym(&mut s2, acc_ty, "acc");
            let item = self.mk_sym(&mut s2, item_ty, "item");
            let mut locals = vec![];
            for decl in body.local_decls.iter() {
                let lty = inst.instantiate_mir_and_normalize_erasing_regions(tcx, self.tenv, EarlyBinder::bind(decl.ty));
                s2.cells.push(Cell { ty: lty, v: V::Undef, name: None });
                locals.push(s2.cells.len() - 1);
            }
            let jacc = self.jval(&s2, &acc, acc_ty);
            let jitem = self.jval(&s2, &item, item_ty);
            let argv = vec![f.clone(), if unary { V::Agg(vec![item]) } else { V::Agg(vec![acc, item]) }];
            let untuple = matches!(inst.def, InstanceKind::Item(d) if tcx.is_closure_like(d)) && body.spread_arg.is_none();
            if unary && untuple && body.arg_count == 2 {
                s2.cells[locals[1]].v = argv[0].clone();
                if let V::Agg(fs) = &argv[1] {
                    s2.cells[locals[2]].v = fs[0].clone();
                }
            } else if unary && !untuple && body.arg_count == 2 {
                s2.cells[locals[1]].v = argv[0].clone();
                s2.cells[locals[2]].v = argv[1].clone();
            } else if unary {
                return Err(format!("unary callable with {} args", body.arg_count));
            } else if untuple && body.arg_count == 3 {
                s2.cells[locals[1]].v = argv[0].clone();
                if let V::Agg(fs) = &argv[1] {
                    s2.cells[locals[2]].v = fs[0].clone();
                    s2.cells[locals[3]].v = fs[1].clone();
                }
            } else if !untuple && body.arg_count == 2 {
                s2.cells[locals[1]].v = argv[0].clone();
                s2.cells[locals[2]].v = argv[1].clone();
            } else {
                return Err(format!("callable with {} args", body.arg_count));
            }
            s2.frames.push(Frame { visits: vec![], inst, body, locals, bb: mir::START_BLOCK, skip: 0, ret_to: None });
            let o = self.run(s2);
            Ok(format!("{{\"callable\":{},\"item_ty\":{},\"acc\":{},\"item\":{},\"out\":{}}}", jstr(&format!("{:?}", fty)), jstr(&format!("{:?}", item_ty)), jacc, jitem, self.jout(&o, &[])))
        })();
        match r {
            Ok(s) => s,
            Err(e) => format!("{{\"error\":{}}}", jstr(&e)),
        }
    }

    // ---------------------------------------------------------------- JSON rendering
    pub fn jval(&self, st: &State<'tcx>, v: &V<'tcx>, ty: Ty<'tcx>) -> String {
        match v {
            V::Sym(t) => format!("{{\"t\":{}}}", t),
            V::Int(i) => format!("{{\"i\":\"{}\"}}", i),
            V::Str(s) => format!("{{\"s\":{}}}", jstr(s)),
            V::Undef => "{\"u\":1}".to_string(),
            V::Iter { front, back, .. } => format!("{{\"iter\":[{},{}]}}", front, back),
            V::Fn(t) => format!("{{\"fn\":{}}}", jstr(&format!("{:?}", t))),
            V::Agg(fs) => {
                let ftys = self.field_tys(ty);
                let parts: Vec<String> = fs
                    .iter()
                    .enumerate()
                    .map(|(i, f)| {
                        let ft = ftys.as_ref().and_then(|t| t.get(i).copied()).unwrap_or(ty);
                        self.jval(st, f, ft)
                    })
                    .collect();
                if let ty::Closure(did, _) = ty.kind() {
                    return format!("{{\"closure\":{},\"a\":[{}]}}", jstr(&self.tcx.def_path_str(*did)), parts.join(","));
                }
                format!("{{\"a\":[{}]}}", parts.join(","))
            }
            V::Enum(k, fs) => {
                let ftys = self.variant_field_tys(ty, *k);
                let vname = match ty.kind() {
                    ty::Adt(def, _) if def.is_enum() && (*k as usize) < def.variants().len() => def.variant(VariantIdx::from_u32(*k)).name.to_string(),
                    _ => "?".to_string(),
                };
                let parts: Vec<String> = fs
                    .iter()
                    .enumerate()
                    .map(|(i, f)| {
                        let ft = ftys.as_ref().and_then(|t| t.get(i).copied()).unwrap_or(ty);
                        self.jval(st, f, ft)
                    })
                    .collect();
                format!("{{\"e\":{},\"n\":{},\"f\":[{}]}}", k, jstr(&vname), parts.join(","))
            }
            V::Ref(p) => {
                let c = &st.cells[p.cell];
                let pty = self.ptr_ty(st, p).ok();
                let off = self.ptr_offset(st, p);
                let val = match (self.read(st, p), pty) {
                    (Ok(pv), Some(t)) => self.jval(st, &pv, t),
                    _ => "{\"u\":1}".to_string(),
                };
                format!(
                    "{{\"r\":{{\"cell\":{},\"name\":{},\"off\":{},\"n\":{},\"ty\":{},\"val\":{}}}}}",
                    p.cell,
                    c.name.as_ref().map(|n| jstr(n)).unwrap_or("null".into()),
                    off.map(|o| o.to_string()).unwrap_or("null".into()),
                    match (p.win, pty) {
                        // a slice window spans len * (leaves of one element)
                        (Some((_, len)), Some(_)) => self.win_elem_ty(st, p).map(|e| (len * self.leaf_count(e)).to_string()).unwrap_or("null".into()),
                        (_, Some(t)) => self.leaf_count(t).to_string(),
                        _ => "null".into(),
                    },
                    jstr(&pty.map(|t| format!("{:?}", t)).unwrap_or_default()),
                    val
                )
            }
        }
    }
    pub fn jout(&self, o: &Outcome<'tcx>, post: &[(String, usize)]) -> String {
        match o {
            Outcome::Ret(v, ty, st) => {
                let mut s = format!("{{\"k\":\"ret\",\"v\":{},\"post\":{{", self.jval(st, v, *ty));
                for (i, (name, cell)) in post.iter().enumerate() {
                    if i > 0 {
                        s.push(',');
                    }
                    let c = &st.cells[*cell];
                    s.push_str(&format!("{}:{}", jstr(name), self.jval(st, &c.v, c.ty)));
                }
                s.push_str("},\"trace\":[");
                s.push_str(&st.trace.join(","));
                s.push_str("]}");
                s
            }
            Outcome::Panic(k, sp) => format!("{{\"k\":\"panic\",\"why\":{},\"span\":{}}}", jstr(k), jstr(sp)),
            Outcome::Top(w) => format!("{{\"k\":\"top\",\"why\":{}}}", jstr(w)),
            Outcome::Cut(w) => format!("{{\"k\":\"cut\",\"why\":{}}}", jstr(w)),
            Outcome::Ite(c, a, b) => format!("{{\"k\":\"ite\",\"c\":{},\"t\":{},\"e\":{}}}", c, self.jout(a, post), self.jout(b, post)),
            Outcome::Switch(c, arms, other) => {
                let parts: Vec<String> = arms.iter().map(|(v, o)| format!("[\"{}\",{}]", v, self.jout(o, post))).collect();
                format!(
                    "{{\"k\":\"switch\",\"c\":{},\"arms\":[{}],\"other\":{}}}",
                    c,
                    parts.join(","),
                    other.as_ref().map(|o| self.jout(o, post)).unwrap_or("null".into())
                )
            }
        }
    }
}

/// Summarise one root function (identity generic arguments); returns a JSON object.
/// A type parameter of a root that is bounded by a PRIVATE trait of the analysed crate with exactly one, non-generic,
/// implementor can only ever be that implementor (`impl<F: FieldSet> Visitor for KeyVisitor<F>` with `FieldSet` private and
/// implemented by `DecomposedField` alone): the root is summarised for it.  Everything else stays a parameter.
fn closed_world_args<'tcx>(tcx: TyCtxt<'tcx>, did: DefId) -> GenericArgsRef<'tcx> {
    use rustc_middle::ty::TypeFoldable;
    let ident: GenericArgsRef<'tcx> = ty::GenericArgs::identity_for_item(tcx, did);
    let mut subst: Vec<(u32, Ty<'tcx>)> = vec![];
    let preds = tcx.predicates_of(did).instantiate_identity(tcx);
    for p in preds.predicates.iter() {
        let p = p.skip_norm_wip();
        if let Some(tp) = p.as_trait_clause() {
            let tp = tp.skip_binder();
            let self_ty = tp.trait_ref.self_ty();
            let ty::Param(pp) = self_ty.kind() else { continue };
            let tdid = tp.trait_ref.def_id;
            if !tdid.is_local() || tcx.visibility(tdid).is_public() {
                continue;
            }
            let impls: Vec<DefId> = tcx.all_impls(tdid).collect();
            if impls.len() != 1 {
                continue;
            }
            let ity = tcx.type_of(impls[0]).instantiate_identity().skip_norm_wip();
            use rustc_middle::ty::TypeVisitableExt;
            if ity.has_non_region_param() {
                continue;
            }
            if !subst.iter().any(|(i, _)| *i == pp.index) {
                subst.push((pp.index, ity));
            }
        }
    }
    if subst.is_empty() {
        return ident;
    }
    ident.fold_with(&mut ty::BottomUpFolder {
        tcx,
        ty_op: |t| match t.kind() {
            ty::Param(p) => subst.iter().find(|(i, _)| *i == p.index).map(|(_, x)| *x).unwrap_or(t),
            _ => t,
        },
        lt_op: |l| l,
        ct_op: |c| c,
    })
}

pub fn summarise_root<'tcx>(tcx: TyCtxt<'tcx>, did: DefId) -> String {
    let tenv = TypingEnv::post_analysis(tcx, did);
    let cx = Cx::new(tcx, tenv);
    let args: GenericArgsRef<'tcx> = if did.is_local() && std::env::var("MIRSUM_LOCAL").is_ok() { closed_world_args(tcx, did) } else { ty::GenericArgs::identity_for_item(tcx, did) };
    let inst = Instance::new_raw(did, args);
    let body = tcx.instance_mir(inst.def);
    let mut st = State { cells: vec![], frames: vec![], trace: vec![], decided: vec![], symcells: vec![], excluded: vec![], pending: vec![] };
    let mut locals = vec![];
    let identity = args == ty::GenericArgs::identity_for_item(tcx, did);
    let inst_ty = |t: Ty<'tcx>| -> Ty<'tcx> { if identity { t } else { inst.instantiate_mir_and_normalize_erasing_regions(tcx, tenv, EarlyBinder::bind(t)) } };
    for decl in body.local_decls.iter() {
        st.cells.push(Cell { ty: inst_ty(decl.ty), v: V::Undef, name: None });
        locals.push(st.cells.len() - 1);
    }
    let mut post = vec![];
    let mut argdesc = vec![];
    for i in 1..=body.arg_count {
        let ty = inst_ty(body.local_decls[mir::Local::from_usize(i)].ty);
        let name = format!("a{}", i - 1);
        let v = cx.mk_sym(&mut st, ty, &name);
        if let V::Ref(p) = &v {
            post.push((name.clone(), p.cell));
        }
        argdesc.push(format!("{{\"name\":{},\"ty\":{},\"v\":{}}}", jstr(&name), jstr(&format!("{:?}", ty)), cx.jval(&st, &v, ty)));
        st.cells[locals[i]].v = v;
    }
    st.frames.push(Frame { visits: vec![], inst, body, locals, bb: mir::START_BLOCK, skip: 0, ret_to: None });
    let t0 = std::time::Instant::now();
    let o = cx.run(st);
    let out = cx.jout(&o, &post);
    let stats = cx.stats.borrow();
    let js = |v: &Vec<String>| v.iter().map(|s| jstr(s)).collect::<Vec<_>>().join(",");
    format!(
        "{{\"root\":{},\"span\":{},\"ret_ty\":{},\"args\":[{}],\"out\":{},\"inlined\":[{}],\"models\":[{}],\"uninterp\":[{}],\"steps\":{},\"leaves\":{},\"ms\":{}}}",
        jstr(&tcx.def_path_str(did)),
        jstr(&format!("{:?}", body.span)),
        jstr(&format!("{:?}", body.local_decls[mir::RETURN_PLACE].ty)),
        argdesc.join(","),
        out,
        js(&stats.inlined),
        js(&stats.models),
        js(&stats.uninterp),
        stats.steps,
        stats.leaves,
        t0.elapsed().as_millis()
    )
}
