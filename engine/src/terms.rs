//! Hash-consed term table shared by every root summarised in one compiler session.
use std::cell::{Cell, RefCell};
use std::collections::HashMap;

pub type T = u32;

#[derive(Clone, Debug, PartialEq, Eq, Hash)]
pub enum Term {
    /// free variable (input component, fresh symbol)
    Atom(String),
    /// integer / rational literal, decimal text
    CInt(String),
    /// float literal: IEEE bits of the value widened to f64, and the width it was written in
    CFloat(u64, u8),
    /// string literal
    CStr(String),
    App(String, Vec<T>),
}

pub struct Table {
    pub terms: Vec<Term>,
    pub spans: Vec<Option<String>>,
    index: HashMap<Term, T>,
}

thread_local! {
    pub static TABLE: RefCell<Table> = RefCell::new(Table { terms: vec![], spans: vec![], index: HashMap::new() });
    pub static CUR_SPAN: Cell<Option<rustc_span::Span>> = Cell::new(None);
}

pub fn intern(t: Term) -> T {
    TABLE.with(|tb| {
        let mut tb = tb.borrow_mut();
        if let Some(&i) = tb.index.get(&t) {
            return i;
        }
        let i = tb.terms.len() as T;
        tb.terms.push(t.clone());
        let sp = if matches!(t, Term::App(..)) { CUR_SPAN.with(|s| s.get()).map(|sp| format!("{:?}", sp)) } else { None };
        tb.spans.push(sp);
        tb.index.insert(t, i);
        i
    })
}
pub fn get(t: T) -> Term {
    TABLE.with(|tb| tb.borrow().terms[t as usize].clone())
}
pub fn atom(s: &str) -> T {
    intern(Term::Atom(s.to_string()))
}
pub fn cint(s: &str) -> T {
    intern(Term::CInt(s.to_string()))
}
pub fn cfloat(bits: u64, width: u8) -> T {
    intern(Term::CFloat(bits, width))
}
pub fn cstr(s: &str) -> T {
    intern(Term::CStr(s.to_string()))
}
pub fn app(op: &str, a: Vec<T>) -> T {
    intern(Term::App(op.to_string(), a))
}
pub fn as_float(t: T) -> Option<(f64, u8)> {
    match get(t) {
        Term::CFloat(b, w) => Some((f64::from_bits(b), w)),
        _ => None,
    }
}
pub fn is_const(t: T) -> bool {
    matches!(get(t), Term::CFloat(..) | Term::CInt(..))
}

pub fn show(t: T) -> String {
    match get(t) {
        Term::Atom(s) => s,
        Term::CInt(s) => s,
        Term::CFloat(b, _) => format!("{:?}", f64::from_bits(b)),
        Term::CStr(s) => format!("{:?}", s),
        Term::App(f, a) => {
            let xs: Vec<String> = a.iter().map(|x| show(*x)).collect();
            match (f.as_str(), xs.len()) {
                ("add", 2) => format!("({} + {})", xs[0], xs[1]),
                ("sub", 2) => format!("({} - {})", xs[0], xs[1]),
                ("mul", 2) => format!("({} * {})", xs[0], xs[1]),
                ("div", 2) => format!("({} / {})", xs[0], xs[1]),
                ("neg", 1) => format!("-{}", xs[0]),
                _ => format!("{}({})", f, xs.join(", ")),
            }
        }
    }
}

pub fn jstr(s: &str) -> String {
    let mut o = String::with_capacity(s.len() + 2);
    o.push('"');
    for c in s.chars() {
        match c {
            '"' => o.push_str("\\\""),
            '\\' => o.push_str("\\\\"),
            '\n' => o.push_str("\\n"),
            '\r' => o.push_str("\\r"),
            '\t' => o.push_str("\\t"),
            c if (c as u32) < 0x20 => o.push_str(&format!("\\u{:04x}", c as u32)),
            c => o.push(c),
        }
    }
    o.push('"');
    o
}

/// Dump the whole table as a JSON array; entry i describes term i.
pub fn dump_table() -> String {
    TABLE.with(|tb| {
        let tb = tb.borrow();
        let mut o = String::from("[");
        for (i, t) in tb.terms.iter().enumerate() {
            if i > 0 {
                o.push(',');
            }
            if i % 64 == 0 {
                o.push('\n');
            }
            match t {
                Term::Atom(s) => o.push_str(&format!("[\"v\",{}]", jstr(s))),
                Term::CInt(s) => o.push_str(&format!("[\"i\",{}]", jstr(s))),
                Term::CFloat(b, w) => o.push_str(&format!("[\"f\",\"{}\",{},{}]", b, w, jstr(&format!("{:?}", f64::from_bits(*b))))),
                Term::CStr(s) => o.push_str(&format!("[\"s\",{}]", jstr(s))),
                Term::App(f, a) => {
                    let xs: Vec<String> = a.iter().map(|x| x.to_string()).collect();
                    match &tb.spans[i] {
                        Some(sp) => o.push_str(&format!("[\"a\",{},[{}],{}]", jstr(f), xs.join(","), jstr(sp))),
                        None => o.push_str(&format!("[\"a\",{},[{}]]", jstr(f), xs.join(","))),
                    }
                }
            }
        }
        o.push_str("\n]");
        o
    })
}
