//! Layer A: structural facts about the cgmath crate: ADTs (repr, fields, attributes), impl table,
//! unsafe census (unsafe blocks with the operations inside, unsafe fns, unsafe impls) and rustc's own
//! layouts for a fixed list of monomorphic instantiations.
use crate::terms::jstr;
use rustc_hir as hir;
use rustc_hir::def::DefKind;
use rustc_hir::intravisit::{self, Visitor};
use rustc_middle::ty::{self, Ty, TyCtxt, TypingEnv};
use rustc_span::def_id::LocalDefId;
use std::io::Write;

fn attrs_json(tcx: TyCtxt<'_>, attrs: &[hir::Attribute]) -> String {
    let mut v = vec![];
    for a in attrs {
        match a {
            hir::Attribute::Unparsed(item) => {
                let path: Vec<String> = item.path.segments.iter().map(|s| s.to_string()).collect();
                let sp = tcx.sess.source_map().span_to_snippet(item.span).unwrap_or_default();
                v.push(format!("{{\"path\":{},\"text\":{}}}", jstr(&path.join("::")), jstr(&sp)));
            }
            hir::Attribute::Parsed(k) => {
                let d = format!("{:?}", k);
                let name = d.split(|c: char| !c.is_alphanumeric() && c != '_').next().unwrap_or("").to_string();
                if name == "DocComment" {
                    continue;
                }
                v.push(format!("{{\"parsed\":{}}}", jstr(&name)));
            }
        }
    }
    format!("[{}]", v.join(","))
}

struct UnsafeVisitor<'tcx> {
    tcx: TyCtxt<'tcx>,
    typeck: &'tcx ty::TypeckResults<'tcx>,
    owner: String,
    depth: usize,
    sites: Vec<String>,
    cur_ops: Vec<String>,
}

impl<'tcx> UnsafeVisitor<'tcx> {
    fn iname(&self, did: rustc_hir::def_id::DefId) -> String {
        format!("{}{}", self.tcx.crate_name(did.krate), self.tcx.def_path(did).to_string_no_crate_verbose())
    }
}

impl<'tcx> Visitor<'tcx> for UnsafeVisitor<'tcx> {
    fn visit_block(&mut self, b: &'tcx hir::Block<'tcx>) {
        let is_unsafe = matches!(b.rules, hir::BlockCheckMode::UnsafeBlock(hir::UnsafeSource::UserProvided));
        if is_unsafe {
            self.depth += 1;
            let saved = std::mem::take(&mut self.cur_ops);
            intravisit::walk_block(self, b);
            let ops = std::mem::replace(&mut self.cur_ops, saved);
            self.depth -= 1;
            self.sites.push(format!(
                "{{\"owner\":{},\"span\":{},\"ops\":[{}]}}",
                jstr(&self.owner),
                jstr(&format!("{:?}", b.span)),
                ops.join(",")
            ));
        } else {
            intravisit::walk_block(self, b);
        }
    }
    fn visit_expr(&mut self, e: &'tcx hir::Expr<'tcx>) {
        if self.depth > 0 {
            match e.kind {
                hir::ExprKind::Call(f, args) => {
                    let mut name = String::from("?");
                    let mut unsafe_callee = false;
                    if let hir::ExprKind::Path(qp) = &f.kind {
                        if let Some(did) = self.typeck.qpath_res(qp, f.hir_id).opt_def_id() {
                            name = self.iname(did);
                            if matches!(self.tcx.def_kind(did), DefKind::Fn | DefKind::AssocFn) {
                                unsafe_callee = !self.tcx.fn_sig(did).instantiate_identity().skip_norm_wip().safety().is_safe();
                            }
                        }
                    }
                    let tys: Vec<String> = args.iter().map(|a| format!("{:?}", self.typeck.expr_ty(a))).collect();
                    let rty = format!("{:?}", self.typeck.expr_ty(e));
                    let idx: Vec<String> = args
                        .iter()
                        .map(|a| self.tcx.sess.source_map().span_to_snippet(a.span).unwrap_or_default())
                        .collect();
                    self.cur_ops.push(format!(
                        "{{\"call\":{},\"unsafe_callee\":{},\"args\":[{}],\"ret\":{},\"arg_src\":[{}]}}",
                        jstr(&name),
                        unsafe_callee,
                        tys.iter().map(|t| jstr(t)).collect::<Vec<_>>().join(","),
                        jstr(&rty),
                        idx.iter().map(|t| jstr(t)).collect::<Vec<_>>().join(",")
                    ));
                }
                hir::ExprKind::MethodCall(_, recv, args, _) => {
                    let mdid = self.typeck.type_dependent_def_id(e.hir_id);
                    let name = mdid.map(|d| self.iname(d)).unwrap_or("?".into());
                    let unsafe_callee = mdid.map(|d| !self.tcx.fn_sig(d).instantiate_identity().skip_norm_wip().safety().is_safe()).unwrap_or(false);
                    let mut tys = vec![format!("{:?}", self.typeck.expr_ty(recv))];
                    tys.extend(args.iter().map(|a| format!("{:?}", self.typeck.expr_ty(a))));
                    let rty = format!("{:?}", self.typeck.expr_ty(e));
                    let mut idx = vec![self.tcx.sess.source_map().span_to_snippet(recv.span).unwrap_or_default()];
                    idx.extend(args.iter().map(|a| self.tcx.sess.source_map().span_to_snippet(a.span).unwrap_or_default()));
                    self.cur_ops.push(format!(
                        "{{\"call\":{},\"unsafe_callee\":{},\"args\":[{}],\"ret\":{},\"arg_src\":[{}]}}",
                        jstr(&name),
                        unsafe_callee,
                        tys.iter().map(|t| jstr(t)).collect::<Vec<_>>().join(","),
                        jstr(&rty),
                        idx.iter().map(|t| jstr(t)).collect::<Vec<_>>().join(",")
                    ));
                }
                hir::ExprKind::Unary(hir::UnOp::Deref, inner) => {
                    let t = self.typeck.expr_ty(inner);
                    if t.is_raw_ptr() {
                        self.cur_ops.push(format!("{{\"deref_raw\":{},\"to\":{}}}", jstr(&format!("{:?}", t)), jstr(&format!("{:?}", self.typeck.expr_ty(e)))));
                    }
                }
                hir::ExprKind::Cast(inner, _) => {
                    let (f, t) = (self.typeck.expr_ty(inner), self.typeck.expr_ty(e));
                    if t.is_raw_ptr() {
                        self.cur_ops.push(format!("{{\"ptr_cast\":{},\"to\":{}}}", jstr(&format!("{:?}", f)), jstr(&format!("{:?}", t))));
                    }
                }
                _ => {}
            }
        }
        intravisit::walk_expr(self, e);
    }
}

fn layout_json<'tcx>(tcx: TyCtxt<'tcx>, ty: Ty<'tcx>) -> String {
    let tenv = TypingEnv::fully_monomorphized();
    match tcx.layout_of(tenv.as_query_input(ty)) {
        Ok(l) => {
            let n = l.fields.count();
            let offs: Vec<String> = (0..n).map(|i| l.fields.offset(i).bytes().to_string()).collect();
            format!("{{\"size\":{},\"align\":{},\"offsets\":[{}]}}", l.size.bytes(), l.align.abi.bytes(), offs.join(","))
        }
        Err(_) => "null".to_string(),
    }
}

/// leaf offsets (bytes) of every scalar leaf of `ty` in declaration order, via rustc's layouts
fn leaf_offsets<'tcx>(tcx: TyCtxt<'tcx>, ty: Ty<'tcx>, base: u64, out: &mut Vec<u64>) -> bool {
    let tenv = TypingEnv::fully_monomorphized();
    let Ok(l) = tcx.layout_of(tenv.as_query_input(ty)) else { return false };
    match ty.kind() {
        ty::Adt(def, args) if def.is_struct() => {
            for (i, f) in def.non_enum_variant().fields.iter().enumerate() {
                let fty = tcx.normalize_erasing_regions(tenv, ty::Unnormalized::new_wip(f.ty(tcx, args)));
                if !leaf_offsets(tcx, fty, base + l.fields.offset(i).bytes(), out) {
                    return false;
                }
            }
            true
        }
        ty::Tuple(tys) => {
            for (i, fty) in tys.iter().enumerate() {
                if !leaf_offsets(tcx, fty, base + l.fields.offset(i).bytes(), out) {
                    return false;
                }
            }
            true
        }
        ty::Array(elem, len) => {
            let Some(n) = len.try_to_target_usize(tcx) else { return false };
            let Ok(el) = tcx.layout_of(tenv.as_query_input(*elem)) else { return false };
            for i in 0..n {
                if !leaf_offsets(tcx, *elem, base + i * el.size.bytes(), out) {
                    return false;
                }
            }
            true
        }
        _ => {
            out.push(base);
            true
        }
    }
}

pub fn write_inventory(tcx: TyCtxt<'_>, dir: &str) {
    let mut adts = vec![];
    let mut impls = vec![];
    let mut fns = vec![];
    let mut layouts = vec![];
    let scalars: Vec<(&str, Ty<'_>)> = vec![
        ("u8", tcx.types.u8),
        ("u16", tcx.types.u16),
        ("u32", tcx.types.u32),
        ("u64", tcx.types.u64),
        ("usize", tcx.types.usize),
        ("i8", tcx.types.i8),
        ("i16", tcx.types.i16),
        ("i32", tcx.types.i32),
        ("i64", tcx.types.i64),
        ("isize", tcx.types.isize),
        ("f32", tcx.types.f32),
        ("f64", tcx.types.f64),
        ("bool", tcx.types.bool),
        ("char", tcx.types.char),
        ("u128", tcx.types.u128),
    ];
    for ldid in tcx.hir_crate_items(()).definitions() {
        let did = ldid.to_def_id();
        let kind = tcx.def_kind(did);
        let path = tcx.def_path_str(did);
        let span = format!("{:?}", tcx.def_span(did));
        match kind {
            DefKind::Struct | DefKind::Enum | DefKind::Union => {
                let def = tcx.adt_def(did);
                let hir_id = tcx.local_def_id_to_hir_id(ldid);
                let attrs = attrs_json(tcx, tcx.hir_attrs(hir_id));
                let mut fields = vec![];
                if def.is_struct() {
                    for f in def.non_enum_variant().fields.iter() {
                        let fty = tcx.type_of(f.did).instantiate_identity().skip_norm_wip();
                        let fattrs = f.did.as_local().map(|l| attrs_json(tcx, tcx.hir_attrs(tcx.local_def_id_to_hir_id(l)))).unwrap_or("[]".into());
                        fields.push(format!(
                            "{{\"name\":{},\"ty\":{},\"public\":{},\"attrs\":{}}}",
                            jstr(f.name.as_str()),
                            jstr(&format!("{:?}", fty)),
                            tcx.visibility(f.did).is_public(),
                            fattrs
                        ));
                    }
                }
                let generics = tcx.generics_of(did);
                let ntypes = generics.own_params.iter().filter(|p| matches!(p.kind, ty::GenericParamDefKind::Type { .. })).count();
                adts.push(format!(
                    "{{\"path\":{},\"kind\":{},\"repr_c\":{},\"repr_transparent\":{},\"repr_packed\":{},\"type_params\":{},\"fields\":[{}],\"attrs\":{},\"span\":{}}}",
                    jstr(&path),
                    jstr(&format!("{:?}", kind)),
                    def.repr().c(),
                    def.repr().transparent(),
                    def.repr().packed(),
                    ntypes,
                    fields.join(","),
                    attrs,
                    jstr(&span)
                ));
                // layouts for single-type-parameter structs
                if def.is_struct() && ntypes == 1 && generics.own_params.len() == 1 {
                    for (sname, sty) in &scalars {
                        let args = tcx.mk_args(&[(*sty).into()]);
                        let ty = Ty::new_adt(tcx, def, args);
                        let mut offs = vec![];
                        let ok = leaf_offsets(tcx, ty, 0, &mut offs);
                        if !ok {
                            continue;
                        }
                        let n = offs.len() as u64;
                        let arr = Ty::new_array(tcx, *sty, n);
                        let tup = Ty::new_tup(tcx, &vec![*sty; n as usize]);
                        let (mut ao, mut to) = (vec![], vec![]);
                        leaf_offsets(tcx, arr, 0, &mut ao);
                        leaf_offsets(tcx, tup, 0, &mut to);
                        let js = |v: &Vec<u64>| v.iter().map(|x| x.to_string()).collect::<Vec<_>>().join(",");
                        layouts.push(format!(
                            "{{\"adt\":{},\"scalar\":{},\"struct\":{},\"leaf_offsets\":[{}],\"array\":{},\"array_offsets\":[{}],\"tuple\":{},\"tuple_offsets\":[{}]}}",
                            jstr(&path),
                            jstr(sname),
                            layout_json(tcx, ty),
                            js(&offs),
                            layout_json(tcx, arr),
                            js(&ao),
                            layout_json(tcx, tup),
                            js(&to)
                        ));
                    }
                }
            }
            DefKind::Impl { of_trait } => {
                let self_ty = tcx.type_of(did).instantiate_identity().skip_norm_wip();
                let (tr, targs, safety) = if of_trait {
                    let tref = tcx.impl_trait_ref(did).instantiate_identity().skip_norm_wip();
                    let name = format!("{}{}", tcx.crate_name(tref.def_id.krate), tcx.def_path(tref.def_id).to_string_no_crate_verbose());
                    let header = tcx.impl_trait_header(did);
                    (name, format!("{:?}", tref.args), format!("{:?}", header.safety))
                } else {
                    (String::new(), String::new(), String::from("Safe"))
                };
                let items: Vec<String> = tcx.associated_items(did).in_definition_order().map(|a| jstr(a.name().as_str())).collect();
                let preds = format!("{:?}", tcx.predicates_of(did).instantiate_identity(tcx).predicates.iter().map(|p| format!("{:?}", p.skip_norm_wip())).collect::<Vec<_>>());
                impls.push(format!(
                    "{{\"trait\":{},\"self\":{},\"trait_args\":{},\"derived\":{},\"safety\":{},\"items\":[{}],\"bounds\":{},\"span\":{}}}",
                    jstr(&tr),
                    jstr(&format!("{:?}", self_ty)),
                    jstr(&targs),
                    tcx.is_automatically_derived(did),
                    jstr(&safety),
                    items.join(","),
                    jstr(&preds),
                    jstr(&span)
                ));
            }
            DefKind::Fn | DefKind::AssocFn => {
                let sig = tcx.fn_sig(did).instantiate_identity().skip_norm_wip();
                let parent = tcx.opt_parent(did).map(|p| tcx.def_path_str(p)).unwrap_or_default();
                let parent_self = tcx.opt_parent(did).filter(|p| matches!(tcx.def_kind(*p), DefKind::Impl { .. })).map(|p| format!("{:?}", tcx.type_of(p).instantiate_identity().skip_norm_wip())).unwrap_or_default();
                fns.push(format!(
                    "{{\"path\":{},\"name\":{},\"parent\":{},\"parent_self\":{},\"unsafe\":{},\"public\":{},\"sig\":{},\"span\":{}}}",
                    jstr(&path),
                    jstr(tcx.item_name(did).as_str()),
                    jstr(&parent),
                    jstr(&parent_self),
                    !sig.safety().is_safe(),
                    tcx.visibility(did).is_public(),
                    jstr(&format!("{:?}", sig.skip_binder())),
                    jstr(&span)
                ));
            }
            _ => {}
        }
    }
    // unsafe blocks
    let mut sites = vec![];
    for owner in tcx.hir_body_owners() {
        let body = tcx.hir_body_owned_by(owner);
        let typeck = tcx.typeck(owner);
        let mut v = UnsafeVisitor { tcx, typeck, owner: tcx.def_path_str(owner.to_def_id()), depth: 0, sites: vec![], cur_ops: vec![] };
        // an unsafe fn body is an unsafe context as a whole
        let is_unsafe_fn = matches!(tcx.def_kind(owner.to_def_id()), DefKind::Fn | DefKind::AssocFn)
            && !tcx.fn_sig(owner.to_def_id()).instantiate_identity().skip_norm_wip().safety().is_safe();
        if is_unsafe_fn {
            v.depth = 1;
        }
        v.visit_expr(body.value);
        if is_unsafe_fn {
            v.sites.push(format!("{{\"owner\":{},\"span\":{},\"unsafe_fn\":true,\"ops\":[{}]}}", jstr(&v.owner), jstr(&format!("{:?}", body.value.span)), v.cur_ops.join(",")));
        }
        sites.extend(v.sites);
    }
    let _: Option<LocalDefId> = None;
    let s = format!(
        "{{\"adts\":[\n{}\n],\n\"impls\":[\n{}\n],\n\"fns\":[\n{}\n],\n\"unsafe_sites\":[\n{}\n],\n\"layouts\":[\n{}\n]}}\n",
        adts.join(",\n"),
        impls.join(",\n"),
        fns.join(",\n"),
        sites.join(",\n"),
        layouts.join(",\n")
    );
    let path = format!("{}/inventory.json", dir);
    let tmp = format!("{}.tmp", path);
    std::fs::File::create(&tmp).and_then(|mut f| f.write_all(s.as_bytes())).expect("write inventory");
    std::fs::rename(&tmp, &path).expect("rename inventory");
}
