//! Layer A: structural facts about the cgmath crate (filled in below).
use rustc_middle::ty::TyCtxt;
pub fn write_inventory(_tcx: TyCtxt<'_>, _dir: &str) {}
