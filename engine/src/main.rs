//! mirsum — rustc_private driver that (a) inventories the cgmath crate (layer A) and
//! (b) summarises harness roots into outcome trees of terms (layer B).  See /verif/DESIGN.md.
#![feature(rustc_private)]
#![allow(clippy::too_many_arguments)]
extern crate rustc_abi;
extern crate rustc_ast;
extern crate rustc_data_structures;
extern crate rustc_driver;
extern crate rustc_hir;
extern crate rustc_interface;
extern crate rustc_middle;
extern crate rustc_session;
extern crate rustc_span;

mod interp;
mod inventory;
mod terms;

use rustc_driver::Compilation;
use rustc_hir::def::DefKind;
use rustc_interface::interface;
use rustc_middle::ty::TyCtxt;
use std::io::Write;

struct Cb;

fn out_dir() -> Option<String> {
    std::env::var("MIRSUM_OUT").ok()
}

fn is_root_name(n: &str) -> bool {
    let b = n.as_bytes();
    b.len() > 5 && b[0] == b'c' && b[1].is_ascii_digit() && b[2].is_ascii_digit() && &n[3..5] == "__"
}

/// Roots inside the analysed crate itself that cannot be named from outside (private serde visitors, derive output).
fn summarise_local(tcx: TyCtxt<'_>, dir: &str) {
    let pats = std::env::var("MIRSUM_LOCAL").unwrap_or_default();
    let pats: Vec<&str> = pats.split(',').filter(|s| !s.is_empty()).collect();
    let mut parts = vec![];
    let mut roots = vec![];
    for ldid in tcx.hir_body_owners() {
        let did = ldid.to_def_id();
        if !matches!(tcx.def_kind(did), DefKind::Fn | DefKind::AssocFn) {
            continue;
        }
        let path = tcx.def_path_str(did);
        // `trait:<prefix>` selects every method of an impl of a trait whose path starts with the prefix (wherever the impl lives)
        let by_trait = |pre: &str| -> bool {
            if !matches!(tcx.def_kind(did), DefKind::AssocFn) {
                return false;
            }
            let parent = tcx.parent(did);
            if !matches!(tcx.def_kind(parent), DefKind::Impl { of_trait: true }) {
                return false;
            }
            let tref = tcx.impl_trait_ref(parent).instantiate_identity().skip_norm_wip();
            let name = format!("{}{}", tcx.crate_name(tref.def_id.krate), tcx.def_path(tref.def_id).to_string_no_crate_verbose());
            name.starts_with(pre)
        };
        if pats.iter().any(|p| match p.strip_prefix("trait:") {
            Some(pre) => by_trait(pre),
            None => path.contains(p),
        }) {
            roots.push((path, did));
        }
    }
    roots.sort_by(|a, b| a.0.cmp(&b.0));
    for (name, did) in roots {
        let r = std::panic::catch_unwind(std::panic::AssertUnwindSafe(|| interp::summarise_root(tcx, did)));
        match r {
            Ok(s) => parts.push(format!("{}:{}", terms::jstr(&name), s)),
            Err(_) => parts.push(format!("{}:{{\"root\":{},\"out\":{{\"k\":\"top\",\"why\":\"engine panic\"}},\"args\":[],\"inlined\":[],\"models\":[],\"uninterp\":[]}}", terms::jstr(&name), terms::jstr(&name))),
        }
    }
    let s = format!("{{\"roots\":{{\n{}\n}},\n\"terms\":{}}}\n", parts.join(",\n"), terms::dump_table());
    let path = format!("{}/local.json", dir);
    let tmp = format!("{}.tmp", path);
    std::fs::File::create(&tmp).and_then(|mut f| f.write_all(s.as_bytes())).expect("write local");
    std::fs::rename(&tmp, &path).expect("rename local");
}

fn summarise_harness(tcx: TyCtxt<'_>) {
    let Some(dir) = out_dir() else { return };
    let filter = std::env::var("MIRSUM_ROOTS").unwrap_or_default();
    let mut roots = vec![];
    for ldid in tcx.hir_body_owners() {
        let did = ldid.to_def_id();
        if !matches!(tcx.def_kind(did), DefKind::Fn) {
            continue;
        }
        let name = tcx.item_name(did).to_string();
        if !is_root_name(&name) {
            continue;
        }
        if !filter.is_empty() && !filter.split(',').any(|f| name.contains(f)) {
            continue;
        }
        roots.push((name, did));
    }
    roots.sort_by(|a, b| a.0.cmp(&b.0));
    let mut parts = vec![];
    for (name, did) in roots {
        let r = std::panic::catch_unwind(std::panic::AssertUnwindSafe(|| interp::summarise_root(tcx, did)));
        match r {
            Ok(s) => parts.push(format!("{}:{}", terms::jstr(&name), s)),
            Err(e) => {
                let msg = e.downcast_ref::<String>().cloned().or_else(|| e.downcast_ref::<&str>().map(|s| s.to_string())).unwrap_or_default();
                parts.push(format!(
                    "{}:{{\"root\":{},\"out\":{{\"k\":\"top\",\"why\":{}}},\"args\":[],\"inlined\":[],\"models\":[],\"uninterp\":[]}}",
                    terms::jstr(&name),
                    terms::jstr(&name),
                    terms::jstr(&format!("engine panic: {}", msg))
                ));
            }
        }
    }
    let s = format!("{{\"roots\":{{\n{}\n}},\n\"terms\":{}}}\n", parts.join(",\n"), terms::dump_table());
    let path = format!("{}/summaries.json", dir);
    let tmp = format!("{}.tmp", path);
    std::fs::File::create(&tmp).and_then(|mut f| f.write_all(s.as_bytes())).expect("write summaries");
    std::fs::rename(&tmp, &path).expect("rename summaries");
}

impl rustc_driver::Callbacks for Cb {
    fn after_analysis<'tcx>(&mut self, _c: &interface::Compiler, tcx: TyCtxt<'tcx>) -> Compilation {
        let name = tcx.crate_name(rustc_span::def_id::LOCAL_CRATE);
        match name.as_str() {
            "harness" => summarise_harness(tcx),
            "cgmath" => {
                if let Some(dir) = out_dir() {
                    if std::env::var("MIRSUM_INVENTORY").is_ok() {
                        inventory::write_inventory(tcx, &dir);
                    }
                    if std::env::var("MIRSUM_LOCAL").is_ok() {
                        summarise_local(tcx, &dir);
                    }
                }
            }
            _ => {}
        }
        Compilation::Continue
    }
}

fn main() {
    let mut args: Vec<String> = std::env::args().collect();
    // invoked as RUSTC_WRAPPER: argv[1] is the real rustc
    if args.len() > 1 && (args[1].ends_with("rustc") || args[1].contains("/rustc")) {
        args.remove(1);
    }
    rustc_driver::run_compiler(&args, &mut Cb);
}
