#!/bin/bash
# Build the mirsum driver (zero dependencies, nightly toolchain with rustc-dev), offline.
set -e
cd "$(dirname "$0")/engine"
export CARGO_NET_OFFLINE=true
cargo build --release --offline 2>&1 | tail -3
test -x target/release/mirsum
